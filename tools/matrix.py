#!/venv/bin/python
"""Detection matrix: apply every seeded change to /repo, run the quick check
of its own property (and any extra checks given), revert, and write
seeded/<id>/meta.json plus seeded/MATRIX.md.

usage: tools/matrix.py [SEED_ID ...]   (default: all)

MATRIX_REPO=<dir> runs against another checkout than /repo (a `vp run
--with-repo` snapshot of the same commit, so that /repo stays free).
"""
import json
import os
import subprocess
import sys

VERIF = os.path.dirname(os.path.dirname(os.path.abspath(__file__)))
REPO = os.environ.get('MATRIX_REPO', '/repo')
SEEDED = os.path.join(VERIF, 'seeded')
# checks (beyond the seed's own property) that also look at the same code
EXTRA = {
    'C01_B': ['C04', 'C05', 'C06'], 'C02_B': ['C05', 'C08'], 'C07_B': ['C08'],
    'C14_A': ['C12'], 'C04_B': ['C06'], 'C15_A': ['C04', 'C06'],
    'C20_A': ['C17'], 'C18_B': ['C09'],
    'C03_C': ['C04'], 'C03_D': ['C10', 'C16'], 'C05_D': ['C13'],
    'C10_C': ['C04', 'C06'], 'C10_D': ['C06'],
    'C11_C': ['C12'], 'C11_D': ['C12'], 'C12_C': ['C11'], 'C13_C': ['C02'],
    'C13_D': ['C12'], 'C14_D': ['C11'], 'C16_C': ['C20'],
    'C16_D': ['C10', 'C03'], 'C17_C': ['C04', 'C06'], 'C20_C': ['C16'],
    'C20_D': ['C16'],
    'C02_E': ['C15'], 'C02_F': ['C04'], 'C03_F': ['C09', 'C04'],
    'C05_E': ['C06'], 'C05_F': ['C13'], 'C06_E': ['C13'], 'C06_F': ['C07'],
    'C07_F': ['C08'], 'C09_E': ['C03'], 'C10_F': ['C04'], 'C12_E': ['C13'],
    'C12_F': ['C13'], 'C15_E': ['C02'],
    'C01_F': ['C05'], 'C04_E': ['C03'],
    'C01_G': ['C02', 'C08'], 'C02_H': ['C03'], 'C03_G': ['C16', 'C04'],
    'C03_H': ['C11', 'C02'], 'C05_G': ['C02', 'C08'], 'C05_H': ['C13'],
    'C07_G': ['C08'], 'C07_H': ['C13'], 'C08_G': ['C13'], 'C08_H': ['C02'],
    'C11_G': ['C14'], 'C11_H': ['C03', 'C02'], 'C12_G': ['C14'],
    'C13_G': ['C12'], 'C13_H': ['C08'], 'C16_G': ['C07'],
    'C04_I': ['C17'], 'C04_J': ['C09', 'C17', 'C01'], 'C06_I': ['C13'],
    'C06_J': ['C04', 'C07'], 'C09_I': ['C04', 'C17'], 'C10_I': ['C13'],
    'C14_I': ['C15', 'C11'], 'C15_I': ['C07', 'C16'], 'C15_J': ['C16'],
    'C17_I': ['C09', 'C04'], 'C17_J': ['C04'], 'C18_J': ['C01', 'C09'],
    'C20_I': ['C09', 'C01'], 'C20_J': ['C17'],
}


def sh(cmd, **kw):
    return subprocess.run(cmd, shell=True, capture_output=True, text=True,
                          **kw)


def run_check(cid):
    env = dict(os.environ, VERIF_NO_EVIDENCE='1')
    if REPO != '/repo':
        env['VP_RUN_REPO'] = REPO
    # (a change can make a check wait for ever: that is a miss, not a row
    # that blocks the rest)
    r = sh('timeout -k 10 1500 ./check %s --tier quick' % cid, cwd=VERIF,
           env=env)
    sigs = [l.split('sig=')[1].split(' ')[0] for l in r.stdout.splitlines()
            if 'sig=' in l]
    return r.returncode, sigs


def main():
    ids = sys.argv[1:] or sorted(
        d for d in os.listdir(SEEDED)
        if os.path.isdir(os.path.join(SEEDED, d)))
    if sh('git -C %s status --porcelain' % REPO).stdout.strip():
        sys.exit('%s is dirty' % REPO)
    rows = []
    for sid in ids:
        d = os.path.join(SEEDED, sid)
        prop = sid.split('_')[0]
        patch = os.path.join(d, 'patch.diff')
        a = sh('git -C %s apply %s' % (REPO, patch))
        if a.returncode:
            print(sid, 'PATCH DOES NOT APPLY', a.stderr[:200])
            continue
        results = {}
        try:
            for cid in [prop] + EXTRA.get(sid, []):
                rc, sigs = run_check(cid)
                results[cid] = dict(exit=rc, violations=len(sigs),
                                    signatures=sigs[:6])
                print(sid, cid, 'rc=%d' % rc, sigs[:2], flush=True)
        finally:
            sh('git -C %s checkout -- . && git -C %s clean -fdq' % (REPO, REPO))
        meta_txt = open(os.path.join(d, 'meta.txt')).read() \
            if os.path.exists(os.path.join(d, 'meta.txt')) else ''
        meta = dict(
            id=sid, property=prop,
            breaks=meta_txt.strip(),
            needs_to_manifest=_needs(meta_txt),
            produced_by='independent sub-agent given only the property text '
                        'and a scratch worktree',
            confirmed=dict(
                how='tools/seed_verify.sh in a scratch worktree of /repo '
                    'HEAD: patch applies; demo.py exits 0 without and '
                    'non-zero with the change; pinned suite 137 passed with '
                    'the change',
                repo_head=sh('git -C %s rev-parse --short HEAD' % REPO
                             ).stdout.strip()),
            detection=results,
            detected_by=[c for c, r in results.items() if r['exit'] == 1],
        )
        with open(os.path.join(d, 'meta.json'), 'w') as f:
            json.dump(meta, f, indent=1)
        rows.append(meta)
    # matrix over everything on disk
    lines = ['| seed | property | detected by (quick tier) | first '
             'signature |', '|---|---|---|---|']
    for sid in sorted(os.listdir(SEEDED)):
        p = os.path.join(SEEDED, sid, 'meta.json')
        if not os.path.exists(p):
            continue
        m = json.load(open(p))
        det = m['detected_by']
        first = ''
        for c in det:
            s = m['detection'][c]['signatures']
            if s:
                first = s[0]
                break
        lines.append('| %s | %s | %s | `%s` |' % (
            sid, m['property'], ', '.join(det) or '**missed**', first))
    with open(os.path.join(SEEDED, 'MATRIX.md'), 'w') as f:
        f.write('# Detection matrix (generated by tools/matrix.py)\n\n'
                + '\n'.join(lines) + '\n')
    print('\n'.join(lines))


def _needs(txt):
    for l in txt.splitlines():
        if 'need' in l.lower() or 'manifest' in l.lower() or \
                'trigger' in l.lower():
            return l.strip()
    return ''


if __name__ == '__main__':
    main()
