#!/bin/bash
# run every quick check with a given seed, without touching committed evidence
cd "$(dirname "$0")/.."
for c in C01 C02 C03 C04 C05 C06 C07 C08 C09 C10 C11 C12 C13 C14 C15 C16 C17 C18 C19 C20; do
  VERIF_SEED=${1:-0} VERIF_NO_EVIDENCE=1 ./check $c --tier quick 2>&1 | grep -v "^KNOWN-FINDING" | tail -1 | sed 's/wall=.*//'
done
