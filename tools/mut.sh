#!/bin/bash
# tools/mut.sh <patch.diff> <ID> [<ID>...]  : apply a patch to /repo, run the
# quick checks, always revert.  Prints one line per check.
P="$(realpath "$1")"; shift
cd /repo || exit 2
if [ -n "$(git status --porcelain)" ]; then echo "repo dirty"; exit 2; fi
git apply "$P" || { echo "patch does not apply"; exit 2; }
trap 'git -C /repo checkout -- . ; git -C /repo clean -fdq' EXIT
cd /verif
for id in "$@"; do
  out=$(VERIF_NO_EVIDENCE=1 ./check "$id" --tier "${TIER:-quick}" 2>&1); rc=$?
  echo "$id rc=$rc $(echo "$out" | grep -c '^VIOLATION') violations; $(echo "$out" | grep -m1 'sig=' )"
done
