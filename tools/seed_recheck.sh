#!/bin/bash
# tools/seed_recheck.sh <seed id>... : re-confirm kept seeded changes against
# the current /repo HEAD in a scratch worktree (patch applies, demo passes
# without and fails with it, pinned suite passes with it).
for S in "$@"; do
  WT=/tmp/wt/recheck_$S
  D=/verif/seeded/$S
  git -C /repo worktree add -q --detach $WT HEAD || exit 2
  (
    cd $WT
    export PYTHONPATH=$WT/src PYTHONDONTWRITEBYTECODE=1
    timeout 300 /venv/bin/python $D/demo.py >/dev/null 2>&1; clean_rc=$?
    if git apply $D/patch.diff 2>/dev/null; then
      timeout 300 /venv/bin/python $D/demo.py >/dev/null 2>&1; mut_rc=$?
      suite=$(timeout 900 /venv/bin/python -m pytest -q -p no:cacheprovider --timeout=900 2>&1 | tail -1 | cut -c1-20)
      echo "$S clean=$clean_rc mut=$mut_rc suite=$suite"
    else
      echo "$S PATCH-DOES-NOT-APPLY"
    fi
  )
  git -C /repo worktree remove --force $WT
done
