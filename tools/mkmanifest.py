#!/venv/bin/python
"""Generate /verif/MANIFEST.json from mc/registry.py and validate it."""
import json
import os
import sys

HERE = os.path.dirname(os.path.dirname(os.path.abspath(__file__)))
sys.path.insert(0, HERE)
from mc import registry  # noqa: E402

BASE = ("cd /repo && /venv/bin/python -m pytest -ra -q -p no:cacheprovider "
        "--timeout=900 --continue-on-collection-errors")


def main():
    src = []
    try:
        import subprocess
        out = subprocess.run(
            ['git', '-C', '/repo', 'log', '--format=%h %s'],
            capture_output=True, text=True).stdout
        src = [l.split()[0] for l in out.splitlines()
               if l.split(' ', 1)[1].startswith('verif-hook:')]
    except Exception:
        pass
    checks = []
    for pid in sorted(registry.CHECKS):
        c = registry.CHECKS[pid]
        checks.append(dict(
            property_id=pid,
            quick_cmd='./check %s --tier quick' % pid,
            thorough_cmd='./check %s --tier thorough' % pid,
            evidence_file='evidence/%s.json' % pid,
            replay_cmd_template='./check %s --replay {path}' % pid,
            engine=c.get('engine', 'mc'),
            level_claimed=dict(category='model_checking', text=c['text'],
                               design_ref='DESIGN.md section ' + c['design']),
            level_note=c['note'] + '; ' + registry.ASSUME_COMMON,
            technique=c['technique'],
        ))
    na = []
    for pid in sorted(registry.SECTIONS):
        if pid not in registry.CHECKS:
            na.append(dict(property_id=pid,
                           reason=registry.NA.get(pid) if hasattr(
                               registry, 'NA') and pid in registry.NA else
                           registry.NOT_BUILT_REASON % registry.SECTIONS[pid]))
    m = dict(
        version=1,
        setup_cmd='mkdir -p evidence replays && /venv/bin/python -c '
                  '"import ZODB, transaction, persistent, BTrees"',
        hooks=dict(
            guard='ZODB_VERIF',
            enable='no source hooks: ./check sets ZODB_VERIF=1 and rebinds '
                   'module-level seams (time, random, open, os, Lock) of the '
                   'imported ZODB modules inside the checking process only',
            baseline_off_cmd=BASE,
            source_commits=src,
            add_only=True),
        engines=[
            dict(name='mc', path='mc/',
                 serves_properties=sorted(registry.CHECKS),
                 kind_free_text='bounded exhaustive exploration of the real '
                 'implementation (explicit-state search over operation '
                 'sequences, crash-cut and fault-point enumeration on a '
                 'recording file layer, preemption-bounded schedule '
                 'exploration of real threads) against a reference model')],
        checks=checks,
        not_applicable=na,
        notes='All checks import ZODB from /repo/src (editable install), so '
              'they always run the current working tree. See DESIGN.md.',
    )
    path = os.path.join(HERE, 'MANIFEST.json')
    with open(path, 'w') as f:
        json.dump(m, f, indent=1)
        f.write('\n')
    print('wrote', path, 'checks=%d not_applicable=%d' % (len(checks),
                                                          len(na)))


if __name__ == '__main__':
    main()
