#!/bin/bash
# tools/seed_verify.sh <ID> <X> : confirm a sub-agent's seeded change in a
# scratch worktree: patch applies, demo fails with it and passes without it,
# pinned suite passes with it.  Then store it under /verif/seeded/<ID>_<X>/.
ID=$1; X=$2
WT=/tmp/wt/verify_$ID$X
PATCH=/tmp/wt/${ID}_$X.patch.diff; DEMO=/tmp/wt/${ID}_${X}_demo.py; META=/tmp/wt/${ID}_$X.meta.txt
git -C /repo worktree add -q --detach $WT HEAD || exit 2
trap 'git -C /repo worktree remove --force '$WT EXIT
cd $WT
export PYTHONPATH=$WT/src PYTHONDONTWRITEBYTECODE=1
timeout 300 /venv/bin/python $DEMO >/dev/null 2>&1; clean_rc=$?
git apply $PATCH || { echo "$ID $X: PATCH DOES NOT APPLY"; exit 1; }
timeout 300 /venv/bin/python $DEMO >/dev/null 2>&1; mut_rc=$?
suite=$(timeout 900 /venv/bin/python -m pytest -q -p no:cacheprovider --timeout=900 2>&1 | tail -1)
echo "$ID $X: demo clean rc=$clean_rc, with change rc=$mut_rc, suite: $suite"
if [ $clean_rc -eq 0 ] && [ $mut_rc -ne 0 ] && echo "$suite" | grep -q "137 passed"; then
  D=/verif/seeded/${ID}_$X; mkdir -p $D
  cp $PATCH $D/patch.diff; cp $DEMO $D/demo.py; cp $META $D/meta.txt
  echo "KEPT $D"
else
  echo "REJECTED $ID $X"
fi
