#!/venv/bin/python
"""Regenerate the table of repaired defects in DESIGN.md (between the
FIXTABLE markers) from known_findings.json ("fixed:" entries) and the /repo
log."""
import json
import os
import re
import subprocess

VERIF = os.path.dirname(os.path.dirname(os.path.abspath(__file__)))


def main():
    kf = json.load(open(os.path.join(VERIF, 'known_findings.json')))
    log = subprocess.run(['git', '-C', '/repo', 'log', '--reverse',
                          '--format=%h %s'], capture_output=True,
                         text=True).stdout.splitlines()
    order = [l.split()[0] for l in log if ' fix:' in l]
    rows = {}
    for e in kf['fixed']:
        m = re.match(r'fixed: property=(\S+) (\S+) (.*)', e)
        if not m:
            continue
        prop, commit, what = m.groups()
        what = re.split(r'\s*\((?:also [^;()]*; )?signatures? ', what)[0]
        what = what.replace('|', '\\|')
        rows.setdefault(commit[:7], []).append((prop, what))
    lines = ['| commit | property | what failed |', '|---|---|---|']
    for c in order:
        for prop, what in rows.get(c[:7], []):
            lines.append('| %s | %s | %s |' % (c[:7], prop, what))
    missing = [c for c in order if c[:7] not in rows]
    p = os.path.join(VERIF, 'DESIGN.md')
    s = open(p).read()
    a = s.index('<!-- FIXTABLE BEGIN -->')
    b = s.index('<!-- FIXTABLE END -->')
    s = s[:a] + '<!-- FIXTABLE BEGIN -->\n' + '\n'.join(lines) + '\n' + s[b:]
    open(p, 'w').write(s)
    print('rows', len(lines) - 2, 'fix commits', len(order),
          'without entry', missing)


if __name__ == '__main__':
    main()
