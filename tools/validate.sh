#!/bin/bash
# validate MANIFEST.json and every evidence file against the schemas
cd "$(dirname "$0")/.."
python3-vt - <<'PY'
import json, jsonschema, glob, sys
m=json.load(open('MANIFEST.json'))
jsonschema.validate(m, json.load(open('/root/.vp/MANIFEST.schema.json')))
es=json.load(open('/root/.vp/EVIDENCE.schema.json'))
bad=0
for c in m['checks']:
    try:
        e=json.load(open(c['evidence_file']))
        jsonschema.validate(e, es)
    except Exception as x:
        bad+=1; print('BAD', c['evidence_file'], str(x)[:200])
print('manifest ok; checks=%d bad_evidence=%d'%(len(m['checks']),bad))
sys.exit(1 if bad else 0)
PY
