#!/venv/bin/python
"""Reach guard: run a quick check with line coverage of /repo/src/ZODB in
every worker and list the lines of the property's anchor ranges that no
execution reached.  Decides nothing; tells where a driver is too blunt.

usage: tools/reach.py C04 [C07 ...]     writes selftest/reach/<ID>.txt
"""
import json
import os
import re
import shutil
import subprocess
import sys

VERIF = os.path.dirname(os.path.dirname(os.path.abspath(__file__)))


def anchors(pid):
    for l in open(os.path.join(VERIF, 'properties.jsonl')):
        p = json.loads(l)
        if p['id'] != pid:
            continue
        out = []
        for m in p['anchors'].get('mechanism', []):
            for part in m.get('where', '').split(';'):
                part = part.strip()
                mm = re.match(r'(src/\S+?\.py)(.*)', part)
                if not mm:
                    continue
                fn = mm.group(1)
                for a, b in re.findall(r':(\d+)-(\d+)', mm.group(2)):
                    out.append((fn, int(a), int(b)))
        return out
    return []


PINNED = '4650454'


def linemap(fn):
    """old (pinned tree) line number -> current line number."""
    import difflib
    old = subprocess.run(['git', '-C', '/repo', 'show', '%s:%s' % (PINNED, fn)],
                         capture_output=True, text=True).stdout.splitlines()
    new = open(os.path.join('/repo', fn)).read().splitlines()
    m = {}
    sm = difflib.SequenceMatcher(None, old, new, autojunk=False)
    for tag, i1, i2, j1, j2 in sm.get_opcodes():
        if tag == 'equal':
            for k in range(i2 - i1):
                m[i1 + k + 1] = j1 + k + 1
    return m, new


def main():
    import coverage
    for pid in sys.argv[1:]:
        d = '/dev/shm/zodb-verif-cov-%s' % pid
        shutil.rmtree(d, ignore_errors=True)
        os.makedirs(d)
        env = dict(os.environ, VERIF_COVERAGE=d, VERIF_NO_EVIDENCE='1')
        subprocess.run(['./check', pid, '--tier', 'quick'], cwd=VERIF,
                       env=env, stdout=subprocess.DEVNULL)
        cov = coverage.Coverage(data_file=os.path.join(d, 'cov'))
        cov.combine([d])
        data = cov.get_data()
        lines = []
        total = missed = 0
        for fn, a, b in anchors(pid):
            path = os.path.join('/repo', fn)
            try:
                _, stmts, _, miss, _ = cov.analysis2(path)
            except Exception as e:
                lines.append('%s: no data (%s)' % (fn, e))
                continue
            lm, src = linemap(fn)
            cur = {lm[x] for x in range(a, b + 1) if x in lm}

            def body(x):
                t = src[x - 1].strip()
                return not t.startswith(('def ', 'class ', '@', '"""'))
            st = [x for x in stmts if x in cur and body(x)]
            ms = [x for x in miss if x in cur and body(x)]
            total += len(st)
            missed += len(ms)
            lines.append('%s:%d-%d  statements=%d  not reached=%s' % (
                fn, a, b, len(st), ms))
        os.makedirs(os.path.join(VERIF, 'selftest', 'reach'), exist_ok=True)
        with open(os.path.join(VERIF, 'selftest', 'reach', pid + '.txt'),
                  'w') as f:
            f.write('%s quick tier: anchor statements %d, not reached %d\n'
                    % (pid, total, missed))
            f.write('\n'.join(lines) + '\n')
        print(pid, 'anchor statements', total, 'not reached', missed)
        for l in lines:
            print('  ', l)
        shutil.rmtree(d, ignore_errors=True)


if __name__ == '__main__':
    main()
