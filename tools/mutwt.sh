#!/bin/bash
# tools/mutwt.sh <patch.diff> <ID> [<ID>...] : like mut.sh, but on the scratch
# worktree /tmp/wt/clean (development aid while /repo is busy; results that
# are recorded anywhere come from mut.sh / matrix.py on /repo itself)
WT=/tmp/wt/clean
[ -d $WT ] || git -C /repo worktree add -q --detach $WT HEAD || exit 2
P=$(readlink -f "$1"); shift
git -C $WT checkout -q --detach $(git -C /repo rev-parse HEAD) 2>/dev/null
git -C $WT apply "$P" || exit 2
trap 'git -C '$WT' checkout -- . ; git -C '$WT' clean -fdq' EXIT
cd "$(dirname "$0")/.."
for c in "$@"; do
  out=$(VP_RUN_REPO=$WT VERIF_NO_EVIDENCE=1 ./check $c --tier quick 2>&1); rc=$?
  echo "$c rc=$rc $(echo "$out" | grep -c 'sig=') violations; $(echo "$out" | grep 'sig=' | head -1 | cut -c1-160)"
done
