#!/venv/bin/python
"""Regenerate the table of section 3 of DESIGN.md (between the TABLE3
markers) from the committed evidence files: engine and bounds completed,
executions, evaluations, distinct outcomes, wall time of the quick tier."""
import json
import os

VERIF = os.path.dirname(os.path.dirname(os.path.abspath(__file__)))
ENGINE = {
    'C01': 'seqx + crash images', 'C02': 'sched + interleavings',
    'C03': 'sched + interleavings', 'C04': 'seqx', 'C05': 'seqx + faults',
    'C06': 'seqx + scenarios', 'C07': 'seqx', 'C08': 'sched + crash images '
    '+ faults', 'C09': 'seqx + images', 'C10': 'scenario enumeration',
    'C11': 'seqx', 'C12': 'seqx', 'C13': 'seqx + scenarios',
    'C14': 'input enumeration', 'C15': 'seqx + scenarios',
    'C16': 'seqx + scenarios', 'C17': 'seqx + damage', 'C18': 'seqx + damage',
    'C19': 'explicit-state', 'C20': 'seqx + sched',
}


def main():
    lines = ['| id | engine | bounds completed (quick tier) | executions | '
             'comparisons | outcomes | wall |',
             '|---|---|---|---|---|---|---|']
    for i in range(1, 21):
        cid = 'C%02d' % i
        e = json.load(open(os.path.join(VERIF, 'evidence', cid + '.json')))
        c = e['coverage']
        b = c.get('bounds_completed') or {}
        items = list(b.items())
        # harness bounds: say how many harnesses at which bound
        pre = [(k, v) for k, v in items if k.endswith('preemptions')]
        rest = [(k, v) for k, v in items if not k.endswith('preemptions')]
        parts = ['%s=%s' % (k, v) for k, v in rest]
        if pre:
            by = {}
            for k, v in pre:
                by.setdefault(v, []).append(k)
            parts.append('preemption bound ' + ', '.join(
                '%s for %d harnesses' % (v, len(ks))
                for v, ks in sorted(by.items())))
        bs = '; '.join(parts)
        if len(bs) > 400:
            bs = bs[:400] + ' ...'
        lines.append('| %s | %s | %s | %s | %s | %s | %.0f s |' % (
            cid, ENGINE[cid], bs.replace('|', '/'),
            c.get('traces_validated_against_impl', ''),
            c.get('evaluations', c.get('oracle_evaluations', '')),
            len(c['distinct_outcomes']) if isinstance(
                c.get('distinct_outcomes'), dict)
            else c.get('distinct_outcomes', ''),
            e.get('wall_s', 0)))
    p = os.path.join(VERIF, 'DESIGN.md')
    s = open(p).read()
    a = s.index('<!-- TABLE3 BEGIN -->')
    b = s.index('<!-- TABLE3 END -->')
    s = s[:a] + '<!-- TABLE3 BEGIN -->\n' + '\n'.join(lines) + '\n' + s[b:]
    open(p, 'w').write(s)
    print('ok')


if __name__ == '__main__':
    main()
