"""Cooperative scheduler for real threads, controlled locks, and
preemption-bounded exhaustive schedule exploration (iterative context
bounding, CHESS style).

Exactly one controlled thread runs at a time.  Scheduling points are lock
acquire/release, condition wait/notify, recorded I/O ops (via iolog hooks) and,
in the fine-grained pass, line events of selected functions.

When no scheduler is active (set-up / tear-down on the main thread, and all
sequential checks) the controlled locks behave as single-thread locks that
raise DeadlockError instead of blocking.
"""
import sys
import threading
import time as _time

MAX_POINTS = 20000


class DeadlockError(Exception):
    """A lock operation would block forever."""


class Killed(BaseException):
    """Unwinds a controlled thread after a deadlock / livelock verdict."""


class ReplayDivergence(Exception):
    pass


ACTIVE = [None]        # the running Scheduler, if any


def _me():
    s = ACTIVE[0]
    if s is None:
        return None
    return s.by_ident.get(threading.get_ident())


# ---------------------------------------------------------------- locks

class SLock:
    """threading.Lock stand-in (no owner: may be released by anyone)."""

    def __init__(self):
        self._held = False
        self.name = None

    def acquire(self, blocking=True, timeout=-1):
        t = _me()
        if t is None:
            if self._held:
                if not blocking:
                    return False
                raise DeadlockError('acquire of a held lock outside a '
                                    'scheduled run')
            self._held = True
            return True
        s = ACTIVE[0]
        if s.killed:
            return True
        s.point(t, 'acquire', self)
        if self._held:
            if not blocking:
                return False
            s.block(t, lambda: not self._held, ('lock', self))
        self._held = True
        return True

    def release(self):
        t = _me()
        if t is not None:
            s = ACTIVE[0]
            if s.killed:
                self._held = False
                return
            s.point(t, 'release', self)
        if not self._held:
            raise RuntimeError('release unlocked lock')
        self._held = False

    def locked(self):
        return self._held

    __enter__ = acquire

    def __exit__(self, *a):
        self.release()


class SRLock:
    def __init__(self):
        self._owner = None
        self._count = 0

    def _who(self):
        t = _me()
        return ('t', t.id) if t is not None else ('main',)

    def acquire(self, blocking=True, timeout=-1):
        t = _me()
        who = self._who()
        if self._owner == who:
            self._count += 1
            return True
        if t is None:
            if self._owner is not None:
                if not blocking:
                    return False
                raise DeadlockError('acquire of a held rlock outside a '
                                    'scheduled run')
        else:
            s = ACTIVE[0]
            if s.killed:
                return True
            s.point(t, 'acquire', self)
            if self._owner is not None:
                if not blocking:
                    return False
                s.block(t, lambda: self._owner is None, ('rlock', self))
        self._owner = who
        self._count = 1
        return True

    def release(self):
        t = _me()
        if t is not None and ACTIVE[0].killed:
            self._owner, self._count = None, 0
            return
        if self._owner != self._who():
            raise RuntimeError('cannot release un-acquired lock')
        if self._count > 1:
            self._count -= 1
            return
        if t is not None:
            ACTIVE[0].point(t, 'release', self)
        self._owner, self._count = None, 0

    def _is_owned(self):
        return self._owner == self._who()

    def _release_save(self):
        st = (self._owner, self._count)
        self._owner, self._count = None, 0
        return st

    def _acquire_restore(self, st):
        self._owner, self._count = st

    __enter__ = acquire

    def __exit__(self, *a):
        self.release()


class SCond:
    """threading.Condition stand-in."""

    def __init__(self, lock=None):
        self._lock = lock if lock is not None else SRLock()
        self.acquire = self._lock.acquire
        self.release = self._lock.release
        self._waiters = []

    def __enter__(self):
        return self._lock.acquire()

    def __exit__(self, *a):
        self._lock.release()

    def wait(self, timeout=None):
        t = _me()
        if t is None:
            raise DeadlockError('condition wait outside a scheduled run')
        s = ACTIVE[0]
        if s.killed:
            raise Killed()
        flag = [False]
        self._waiters.append(flag)
        st = self._lock._release_save()
        s.point(t, 'wait', self)
        s.block(t, lambda: flag[0] and self._lock._owner is None,
                ('cond', self))
        self._lock._acquire_restore(st)
        return True

    def wait_for(self, predicate, timeout=None):
        while not predicate():
            self.wait()
        return True

    def notify(self, n=1):
        t = _me()
        if t is not None and not ACTIVE[0].killed:
            ACTIVE[0].point(t, 'notify', self)
        for flag in self._waiters[:n]:
            flag[0] = True
        del self._waiters[:n]

    def notify_all(self):
        self.notify(len(self._waiters))

    notifyAll = notify_all


_locks_installed = False


def install_locks():
    """Rebind ZODB's lock classes to the controlled ones.  Idempotent."""
    global _locks_installed
    if _locks_installed:
        return
    _locks_installed = True
    from . import env
    u = env.mod('ZODB.utils')
    u.Lock, u.RLock, u.Condition = SLock, SRLock, SCond
    env.mod('ZODB.mvccadapter').Lock = SLock


# ------------------------------------------------------------ scheduler

class CThread:
    def __init__(self, id, body):
        self.id = id
        self.body = body
        self.sem = threading.Semaphore(0)
        self.done = False
        self.pred = None          # blocked iff pred is not None
        self.why = None
        self.outcome = None
        self.thread = None


class Point:
    __slots__ = ('tid', 'kind', 'enabled', 'cur_enabled', 'choice',
                 'preempts')

    def __init__(self, tid, kind, enabled, cur_enabled, choice, preempts):
        self.tid = tid
        self.kind = kind
        self.enabled = enabled
        self.cur_enabled = cur_enabled
        self.choice = choice
        self.preempts = preempts


class Scheduler:
    def __init__(self, bodies, choices=(), trace_funcs=None,
                 max_points=MAX_POINTS):
        self.threads = [CThread(i, b) for i, b in enumerate(bodies)]
        self.by_ident = {}
        self.choices = list(choices)
        self.points = []          # decisions with more than one option
        self.steps = 0            # all scheduling points seen
        self.preempts = 0
        self.killed = False
        self.verdict = None       # None | 'deadlock' | 'livelock'
        self.blocked_info = None
        self.main_sem = threading.Semaphore(0)
        self.trace_funcs = trace_funcs   # {(filename_suffix, funcname)}
        self.max_points = max_points
        self.events = []          # harness-visible log, in scheduled order
        self.current = None

    # called by controlled threads ---------------------------------------
    def log(self, *ev):
        self.events.append(ev)

    def point(self, t, kind, obj=None):
        if self.killed:
            raise Killed()
        self.steps += 1
        if self.steps > self.max_points:
            self._kill('livelock')
            raise Killed()
        self._decide(t, kind)

    def block(self, t, pred, why):
        """t cannot proceed until pred() holds."""
        while not pred():
            if self.killed:
                raise Killed()
            t.pred, t.why = pred, why
            self._decide(t, 'blocked')
            t.pred = t.why = None

    def _enabled(self, cur):
        en = []
        if cur is not None and not cur.done and (cur.pred is None
                                                 or cur.pred()):
            en.append(cur)
        for x in self.threads:
            if x is cur or x.done:
                continue
            if x.pred is None or x.pred():
                en.append(x)
        return en

    def _decide(self, cur, kind):
        """Pick the next thread to run; switch to it if it is not cur."""
        en = self._enabled(cur)
        if not en:
            if all(x.done for x in self.threads):
                self.main_sem.release()
                return
            self.blocked_info = [(x.id, x.why and x.why[0])
                                 for x in self.threads if not x.done]
            self._kill('deadlock')
            if cur is not None and not cur.done:
                raise Killed()
            return
        cur_enabled = bool(cur is not None and en and en[0] is cur)
        if len(en) == 1:
            nxt = en[0]
        else:
            i = len(self.points)
            if i < len(self.choices):
                c = self.choices[i]
                if c >= len(en):
                    self._kill('divergence')
                    raise ReplayDivergence(
                        'choice %d out of range (%d enabled) at decision %d'
                        % (c, len(en), i))
            else:
                c = 0
            self.points.append(Point(cur.id if cur is not None else -1, kind,
                                     len(en), cur_enabled, c, self.preempts))
            if cur_enabled and c != 0:
                self.preempts += 1
            nxt = en[c]
        if nxt is cur:
            return
        self.current = nxt
        nxt.sem.release()
        if cur is not None and not cur.done:
            cur.sem.acquire()
            if self.killed:
                raise Killed()

    def _kill(self, verdict):
        if self.killed:
            return
        self.killed = True
        self.verdict = verdict
        for x in self.threads:
            x.sem.release()
        self.main_sem.release()

    # thread wrapper ------------------------------------------------------
    def _wrap(self, t):
        t.sem.acquire()
        self.by_ident[threading.get_ident()] = t
        if self.killed:
            t.done = True
            return
        if self.trace_funcs:
            sys.settrace(self._tracer(t))
        try:
            t.outcome = ('ok', t.body(self, t))
        except Killed:
            t.outcome = ('killed', None)
        except ReplayDivergence as e:
            t.outcome = ('divergence', str(e))
        except BaseException as e:      # noqa: B902
            t.outcome = ('exc', e)
        finally:
            sys.settrace(None)
            t.done = True
            t.pred = None
        if not self.killed:
            try:
                self._decide(t, 'exit')
            except (Killed, ReplayDivergence):
                pass

    def _tracer(self, t):
        funcs = self.trace_funcs
        sched = self

        def local(frame, event, arg):
            if event == 'line' and not sched.killed:
                sched.point(t, 'line')
            return local

        def glob(frame, event, arg):
            co = frame.f_code
            if (co.co_filename, co.co_name) in funcs or \
                    (co.co_filename, '*') in funcs:
                return local
            return None
        return glob

    # main ----------------------------------------------------------------
    def run(self, timeout=30.0):
        ACTIVE[0] = self
        try:
            for t in self.threads:
                t.thread = threading.Thread(target=self._wrap, args=(t,),
                                            daemon=True)
                t.thread.start()
            # first decision: nobody is current
            self._decide(None, 'start')
            ok = self.main_sem.acquire(timeout=timeout)
            if not ok:
                self._kill('timeout')
            for t in self.threads:
                t.thread.join(timeout=5.0)
                if t.thread.is_alive():
                    self.verdict = self.verdict or 'stuck-thread'
        finally:
            ACTIVE[0] = None
        return self


# -------------------------------------------------------------- explorer

def explore(run_one, bound, max_execs=None, on_exec=None, order_seed=0,
            root=None, expand_only=False):
    """Iterative context bounding.

    run_one(choices) -> Scheduler (after run) ; must build fresh objects.
    Explores every schedule with at most `bound` preemptions.  Returns dict
    with executions, decisions (distinct schedule-tree nodes at which a
    decision was taken), steps, capped flag.
    """
    stats = dict(executions=0, decisions=0, steps=0, capped=False,
                 max_points=0)
    stack = [list(root or [])]
    stats['children'] = []
    while stack:
        prefix = stack.pop()
        if max_execs is not None and stats['executions'] >= max_execs:
            stats['capped'] = True
            break
        s = run_one(prefix)
        stats['executions'] += 1
        stats['steps'] += s.steps
        stats['max_points'] = max(stats['max_points'], len(s.points))
        if on_exec is not None:
            on_exec(prefix, s)
        if s.verdict == 'divergence':
            raise ReplayDivergence('prefix %r diverged' % (prefix,))
        pts = s.points
        stats['decisions'] += max(0, len(pts) - len(prefix))
        children = []
        for i in range(len(prefix), len(pts)):
            p = pts[i]
            for alt in range(1, p.enabled):
                cost = p.preempts + (1 if p.cur_enabled else 0)
                if cost > bound:
                    continue
                children.append([q.choice for q in pts[:i]] + [alt])
        if expand_only:
            stats['children'] = children
            break
        stack.extend(reversed(children))
    return stats
