"""Ownership of nondeterminism: virtual clock, scripted random, scratch dirs,
log silencing, global-cache reset and rebinding of module-level seams in ZODB.

Nothing here edits /repo: every seam is a module global looked up at call time.
"""
import gc
import importlib
import logging
import os
import shutil
import sys
import time as _real_time

SCRATCH_ROOT = os.environ.get('ZODB_VERIF_SCRATCH', '/dev/shm')
T0 = 1_000_000_000.0          # virtual epoch (2001-09-09), whole second


class VClock:
    """Virtual wall clock.  Moves only when the harness says so."""

    def __init__(self, now=T0):
        self.now = now
        # seconds the clock advances after every reading (0: it moves only
        # when the harness says so); a harness sets this to let the clock
        # tick in the middle of an operation
        self.auto = 0.0

    def time(self):
        return self.read()

    def read(self):
        t = self.now
        self.now += self.auto
        return t

    def tick(self, d=1.0):
        self.now += d


class TimeProxy:
    """Stands in for the `time` module inside ZODB modules."""

    def __init__(self, clock):
        self._clock = clock

    def time(self):
        return self._clock.read()

    def sleep(self, s):
        # nothing in the explored code should sleep; make it visible
        self._clock.now += s

    def gmtime(self, secs=None):
        return _real_time.gmtime(self._clock.read() if secs is None
                                 else secs)

    def localtime(self, secs=None):
        return _real_time.localtime(self._clock.read() if secs is None
                                    else secs)

    def __getattr__(self, name):
        return getattr(_real_time, name)


class ScriptedRandom:
    """Stands in for `random` in DemoStorage: values come from a script."""

    def __init__(self):
        self.script = []
        self.fallback = 1 << 40
        self.calls = 0

    def randint(self, a, b):
        self.calls += 1
        if self.script:
            return self.script.pop(0)
        self.fallback += 1 << 20
        return self.fallback


CLOCK = VClock()
TIME = TimeProxy(CLOCK)
RANDOM = ScriptedRandom()

_TIME_MODULES = [
    'ZODB.BaseStorage', 'ZODB.FileStorage.FileStorage', 'ZODB.utils',
    'ZODB.MappingStorage', 'ZODB.DB', 'ZODB.Connection', 'ZODB.fsrecover',
    'ZODB.scripts.repozo', 'ZODB.ActivityMonitor',
]

_installed = False


def mod(name):
    importlib.import_module(name)
    return sys.modules[name]


def install():
    """Rebind clock / random seams and silence ZODB logging.  Idempotent."""
    global _installed
    if _installed:
        return
    _installed = True
    sys.dont_write_bytecode = True
    for name in _TIME_MODULES:
        m = mod(name)
        if hasattr(m, 'time'):
            m.time = TIME
    mod('ZODB.DemoStorage').random = RANDOM
    # transaction package uses time.time for nothing we compare; leave it.
    logging.disable(logging.CRITICAL)
    import warnings
    warnings.simplefilter('ignore')


def reset_globals():
    """Reset process-global caches that would couple executions."""
    CLOCK.now = T0
    CLOCK.auto = 0.0
    RANDOM.script = []
    RANDOM.fallback = 1 << 40
    RANDOM.calls = 0
    cr = mod('ZODB.ConflictResolution')
    cr._unresolvable.clear()
    cr._class_cache.clear()
    br = mod('ZODB.broken')
    br.broken_cache.clear()


# ---------------------------------------------------------------- scratch

_scratch_base = None
_scratch_pid = None
_scratch_n = 0


def scratch_base():
    global _scratch_base, _scratch_pid
    if _scratch_pid != os.getpid():
        _scratch_base = None          # forked worker: own directory
        _scratch_pid = os.getpid()
    if _scratch_base is None or not os.path.isdir(_scratch_base):
        run = os.environ.get('ZODB_VERIF_RUNDIR')
        if not run or not os.path.isdir(run):
            # top-level process of a run: owns the run directory
            run = os.path.join(SCRATCH_ROOT, 'zodb-verif-%d' % os.getpid())
            shutil.rmtree(run, ignore_errors=True)
            os.makedirs(run)
            os.environ['ZODB_VERIF_RUNDIR'] = run
            import atexit
            atexit.register(_cleanup_run, run, os.getpid())
        _scratch_base = os.path.join(run, 'p%d' % os.getpid())
        shutil.rmtree(_scratch_base, ignore_errors=True)
        os.makedirs(_scratch_base)
    return _scratch_base


def _cleanup_run(run, pid):
    if os.getpid() == pid:
        shutil.rmtree(run, ignore_errors=True)


def new_dir(tag='d'):
    global _scratch_n
    _scratch_n += 1
    p = os.path.join(scratch_base(), '%s%d' % (tag, _scratch_n))
    os.makedirs(p)
    return p


def rm_dir(p):
    shutil.rmtree(p, ignore_errors=True)


def sweep_stale():
    """Remove scratch dirs of dead processes (crashed earlier runs)."""
    try:
        names = os.listdir(SCRATCH_ROOT)
    except OSError:
        return
    for n in names:
        if n.startswith('zodb-verif-'):
            try:
                pid = int(n.split('-')[-1])
            except ValueError:
                continue
            if not os.path.exists('/proc/%d' % pid):
                shutil.rmtree(os.path.join(SCRATCH_ROOT, n),
                              ignore_errors=True)


class quiet_gc:
    """gc disabled inside an execution; collected at a fixed point after."""

    def __enter__(self):
        gc.disable()

    def __exit__(self, *a):
        gc.enable()


def repo_head():
    import subprocess
    try:
        return subprocess.run(
            ['git', '-C', os.environ.get('ZODB_VERIF_REPO', '/repo'),
             'rev-parse', '--short', 'HEAD'],
            capture_output=True, text=True).stdout.strip()
    except Exception:
        return '?'
