"""Reference model of a storage: an ordered list of committed transactions.

Boring on purpose: lists and linear scans.  Implementation-only failures (I/O
errors, resource exhaustion) are not part of it.
"""
from base64 import encodebytes

Z64 = b'\0' * 8
MAXTID = b'\x7f' + b'\xff' * 7


class Exc:
    """Expected exception, by category name."""

    def __init__(self, name):
        self.name = name

    def __eq__(self, other):
        return isinstance(other, Exc) and other.name == self.name

    def __hash__(self):
        return hash(('Exc', self.name))

    def __repr__(self):
        return 'Exc(%s)' % self.name


class AnyOf:
    def __init__(self, *alts):
        self.alts = alts

    def __repr__(self):
        return 'AnyOf%r' % (self.alts,)


def matches(exp, got):
    if isinstance(exp, AnyOf):
        return any(matches(a, got) for a in exp.alts)
    return exp == got


POSKEY = Exc('POSKeyError')
GONE = AnyOf(POSKEY, None)      # answer when a query lands on a marker


class Rec:
    __slots__ = ('oid', 'kind', 'data', 'target', 'txn')

    def __init__(self, oid, kind, data=None, target=None):
        self.oid = oid
        self.kind = kind          # 'data' | 'back' | 'zero'
        self.data = data          # bytes for 'data'
        self.target = target      # Rec for 'back'
        self.txn = None

    @property
    def tid(self):
        return self.txn.tid

    def resolve(self):
        r = self
        while r is not None:
            if r.kind == 'data':
                return r.data
            if r.kind == 'zero':
                return None
            r = r.target
        return None

    def resolve_rec(self):
        """The data-holding record this one resolves to, or None."""
        r = self
        while r is not None:
            if r.kind == 'data':
                return r
            if r.kind == 'zero':
                return None
            r = r.target
        return None

    def plen(self):
        return len(self.data) if self.kind == 'data' else 0


class Txn:
    __slots__ = ('tid', 'status', 'user', 'desc', 'ext', 'recs')

    def __init__(self, tid, user=b'', desc=b'', ext=None, recs=(),
                 status=' '):
        self.tid = tid
        self.status = status
        self.user = user
        self.desc = desc
        self.ext = ext or {}
        self.recs = list(recs)
        for r in self.recs:
            r.txn = self


class Model:
    """flavor 'F' = FileStorage semantics, 'M' = MappingStorage semantics."""

    def __init__(self, flavor='F'):
        self.flavor = flavor
        self.txns = []
        self.undo_floor = 0     # the first undo_floor transactions belong
        #                         to a layer that cannot be undone

    def copy_prefix(self, n):
        """Model of the first n transactions (records are shared, read-only:
        a back record only ever points to an earlier record)."""
        m = Model(self.flavor)
        m.txns = self.txns[:n]
        m.undo_floor = self.undo_floor
        return m

    # -- construction -----------------------------------------------------
    def commit(self, txn):
        self.txns.append(txn)
        return txn

    # -- helpers ----------------------------------------------------------
    def oids(self):
        seen = []
        for t in self.txns:
            for r in t.recs:
                if r.oid not in seen:
                    seen.append(r.oid)
        return sorted(seen)

    def recs(self, oid):
        """Records of oid, oldest first.  If one transaction wrote the oid
        more than once (two undos in one transaction), only its last record
        counts for oid-keyed queries; the iterator still shows all."""
        out = []
        for t in self.txns:
            mine = [r for r in t.recs if r.oid == oid]
            if mine:
                out.append(mine[-1])
        return out

    def has_duplicates(self, txn):
        oids = [r.oid for r in txn.recs]
        return len(oids) != len(set(oids))

    def cur(self, oid):
        rs = self.recs(oid)
        return rs[-1] if rs else None

    def tids(self):
        return [t.tid for t in self.txns]

    def last_tid(self):
        return self.txns[-1].tid if self.txns else Z64

    def current_serial(self, oid):
        c = self.cur(oid)
        return c.tid if c is not None else None

    def live(self, oid):
        """Current record exists and resolves to data."""
        c = self.cur(oid)
        return c is not None and c.resolve() is not None

    def txn_by_tid(self, tid):
        for t in self.txns:
            if t.tid == tid:
                return t
        return None

    # -- queries ----------------------------------------------------------
    def load(self, oid):
        c = self.cur(oid)
        if c is None:
            return POSKEY
        d = c.resolve()
        if d is None:
            return POSKEY
        return (d, c.tid)

    def loadBefore(self, oid, tid):
        rs = self.recs(oid)
        if not rs:
            return POSKEY
        below = [r for r in rs if r.tid < tid]
        if not below:
            return None
        r = below[-1]
        d = r.resolve()
        if d is None:
            return GONE
        i = rs.index(r)
        end = rs[i + 1].tid if i + 1 < len(rs) else None
        return (d, r.tid, end)

    def loadSerial(self, oid, serial):
        for r in self.recs(oid):
            if r.tid == serial:
                d = r.resolve()
                return d if d is not None else GONE
        return POSKEY

    def getTid(self, oid):
        c = self.cur(oid)
        if c is None:
            return POSKEY
        if c.kind == 'zero':
            return POSKEY
        if c.resolve() is None:
            # back-pointer chain ending in an un-creation: object is gone;
            # the interface does not say which of the two it is
            return AnyOf(POSKEY, c.tid)
        return c.tid

    def history(self, oid, size):
        rs = self.recs(oid)
        if not rs:
            return POSKEY
        out = []
        for r in reversed(rs):
            if len(out) >= size:
                break
            t = r.txn
            d = dict(t.ext) if self.flavor == 'F' else {}
            d.update(tid=r.tid, user_name=t.user, description=t.desc,
                     size=r.plen())
            out.append(d)
        return out

    def undoLog(self):
        out = []
        for t in reversed(self.txns[self.undo_floor:]):
            if t.status == 'p':
                break
            if t.status != ' ':
                continue
            # what the storage computes wins over extension keys of the
            # same name (as in history())
            d = dict(t.ext)
            d.update(id=encodebytes(t.tid).rstrip(), user_name=t.user,
                     description=t.desc)
            d['_n'] = len(t.recs)
            d['_dup'] = self.has_duplicates(t)
            out.append(d)
        return out

    def iterate(self, start=None, stop=None):
        out = []
        for t in self.txns:
            if start is not None and t.tid < start:
                continue
            if stop is not None and t.tid > stop:
                continue
            recs = []
            for r in t.recs:
                recs.append((r.oid, r.tid, r.resolve()))
            out.append((t.tid, t.status, t.user, t.desc, t.ext, recs))
        return out

    def data_txn_ok(self, oid, tid, data, data_txn):
        """data_txn must name an earlier transaction holding these bytes."""
        if data_txn is None:
            return True
        for r in self.recs(oid):
            if r.tid == data_txn and r.tid < tid and r.resolve() == data:
                return True
        return False
