"""Connection-level world: a real DB, a main connection driven by a small
alphabet of operations (modify, link/add/unlink new objects, savepoint,
rollback, commit, abort, commits that fail at store / vote / finish, close and
reopen), an observer connection, and a reference model of what every tracked
object must look like after every step.
"""
import os

import transaction

from . import env, hclasses
from .battery import Exc, call

EXISTING = ('a', 'b')
NEW = ('n', 'm')


class FailingRM:
    def __init__(self, when, key='\xff'):
        self.when = when
        self.key = key

    def sortKey(self):
        return self.key

    def abort(self, txn):
        pass

    def tpc_begin(self, txn):
        pass

    def commit(self, txn):
        pass

    def tpc_vote(self, txn):
        if self.when == 'vote':
            raise RuntimeError('scripted vote failure')

    def tpc_finish(self, txn):
        pass

    def tpc_abort(self, txn):
        pass


class MObj:
    """Model of one tracked object."""
    __slots__ = ('committed', 'c_in_root', 'value', 'owned', 'in_root',
                 'dirty', 'new_in_txn', 'in_a', 'c_in_a')

    def __init__(self):
        self.committed = None     # committed value, None if not in the DB
        self.c_in_root = False
        self.value = None         # value the main connection must show
        self.owned = False        # has _p_jar / _p_oid
        self.in_root = False      # working root membership
        self.dirty = False
        self.new_in_txn = False   # became owned in the current transaction
        self.in_a = False         # referenced by the existing object 'a'
        self.c_in_a = False

    def copy(self):
        m = MObj()
        for s in self.__slots__:
            setattr(m, s, getattr(self, s))
        return m


class ConnWorld:
    def __init__(self, kind='M', existing=EXISTING, new=NEW):
        env.reset_globals()
        from . import dbworld
        dbworld.own_hash_order()
        self.kind = kind
        self.dir = env.new_dir('cw')
        FS = env.mod('ZODB.FileStorage.FileStorage').FileStorage
        MS = env.mod('ZODB.MappingStorage').MappingStorage
        if kind == 'F':
            self.storage = FS(os.path.join(self.dir, 'Data.fs'))
        elif kind == 'Fb':
            self.storage = FS(os.path.join(self.dir, 'Data.fs'),
                              blob_dir=os.path.join(self.dir, 'blobs'))
        else:
            self.storage = MS()
        self.db = env.mod('ZODB.DB').DB(self.storage)
        self.tm = transaction.TransactionManager()
        self.conn = self.db.open(self.tm)
        self.vcount = 0
        self.violations = []
        self.outcomes = []
        self.model = {}
        self.objs = {}
        self.handles = []          # (Savepoint, model snapshot)
        self.joined = False        # main connection joined the transaction
        self.root_dirty = False
        root = self.conn.root()
        for n in existing:
            o = hclasses.P()
            o.v = self.newval()
            root[n] = o
            self.objs[n] = o
            m = self.model[n] = MObj()
            m.committed = m.value = o.v
            m.c_in_root = m.in_root = m.owned = True
        for n in new:
            o = hclasses.P()
            o.v = self.newval()
            self.objs[n] = o
            m = self.model[n] = MObj()
            m.value = o.v
        self.blobs = ()
        if kind == 'Fb':
            # an existing blob: its "value" is its bytes
            Blob = env.mod('ZODB.blob').Blob
            o = Blob()
            data = b'blob-%03d' % self.newval()
            with o.open('w') as f:
                f.write(data)
            root['B'] = o
            self.objs['B'] = o
            m = self.model['B'] = MObj()
            m.committed = m.value = data
            m.c_in_root = m.in_root = m.owned = True
            self.blobs = ('B',)
        env.CLOCK.now += 1
        self.tm.commit()
        self.tm2 = transaction.TransactionManager()
        self.obs = self.db.open(self.tm2)
        self.tm3 = transaction.TransactionManager()
        self.c3 = self.db.open(self.tm3)
        self.last_stored = None
        self.dead = False

    def close(self):
        try:
            self.tm.abort()
            self.tm2.abort()
            self.tm3.abort()
            self.db.close()
        except Exception:
            pass
        env.rm_dir(self.dir)

    def newval(self):
        self.vcount += 1
        return self.vcount

    def bad(self, clause, sig, detail):
        self.violations.append((clause, sig, detail))

    # -- alphabet ---------------------------------------------------------
    def enabled(self, spec):
        kinds = spec['kinds']
        m = self.model
        ops = []
        for k in kinds:
            if k == 'mod':
                ops += [('mod', n) for n in m
                        if (m[n].owned or n in NEW) and n in spec['objects']
                        and n not in self.blobs]
            elif k == 'bwrite':
                ops += [('bwrite', n) for n in self.blobs
                        if n in spec['objects']]
            elif k == 'link':
                ops += [('link', n) for n in NEW if n in spec['objects']
                        and not m[n].in_root]
            elif k == 'linka':
                # reachable through an existing object other than the root
                ops += [('linka', n) for n in NEW if n in spec['objects']
                        and not m[n].in_a]
            elif k == 'add':
                ops += [('add', n) for n in NEW if n in spec['objects']
                        and not m[n].owned]
            elif k == 'unlink':
                ops += [('unlink', n) for n in m if m[n].in_root
                        and n in spec['objects'] and n in NEW]
            elif k in ('commit', 'abort', 'close'):
                ops.append((k,))
            elif k == 'rival':
                if m['a'].dirty and not getattr(self, 'rivalled', False) \
                        and (not self.handles
                             or spec.get('rival_with_savepoints')):
                    ops.append(('rival',))
            elif k in ('commit-vote-fail', 'commit-finish-fail'):
                if self.joined:
                    ops.append((k,))
            elif k == 'commit-unpicklable':
                # a commit that fails while it serializes a NEW object of
                # its own (the object holds something that cannot be
                # pickled); the attribute is removed again afterwards
                ops += [(k, n) for n in NEW if n in spec['objects']
                        and not m[n].committed
                        and (m[n].in_root or m[n].in_a or m[n].owned)
                        and (m[n].new_in_txn or not m[n].owned)]
            elif k == 'savepoint-unpicklable':
                # a savepoint whose flush fails half way, at a NEW object
                # that cannot be pickled
                ops += [(k, n) for n in NEW if n in spec['objects']
                        and not m[n].committed
                        and (m[n].in_root or m[n].in_a or m[n].owned)
                        and (m[n].new_in_txn or not m[n].owned)]
            elif k == 'savepoint':
                if len(self.handles) < spec.get('max_handles', 2) and (
                        not getattr(self, 'rivalled', False)
                        or spec.get('rival_with_savepoints')):
                    ops.append(('savepoint',))
            elif k == 'rollback':
                ops += [('rollback', j) for j in range(len(self.handles))]
            else:
                raise ValueError(k)
        return ops

    # -- model transitions -------------------------------------------------
    def _reachable_new(self):
        return [n for n in NEW if (self.model[n].in_root
                                   or self.model[n].in_a)
                and not self.model[n].owned]

    def _model_flush(self):
        """What a savepoint or commit does to ownership: reachable new
        objects are adopted."""
        for n in self._reachable_new():
            mo = self.model[n]
            mo.owned = True
            mo.new_in_txn = True

    def _model_commit(self):
        self._model_flush()
        stored = set()
        for n, mo in self.model.items():
            if mo.owned and (mo.dirty or mo.new_in_txn):
                stored.add(n)
                mo.committed = mo.value
            elif mo.owned:
                # not written by us: the boundary shows what is committed
                # (a rival may have committed since we last looked)
                mo.value = mo.committed
            if mo.owned:
                mo.c_in_root = mo.in_root
                mo.c_in_a = mo.in_a
            mo.dirty = False
            mo.new_in_txn = False
        if self.root_dirty:
            stored.add('root')
        self.root_dirty = False
        self.handles = []
        self.joined = False
        self.rivalled = False
        return stored

    def _model_abort(self):
        for n, mo in self.model.items():
            if mo.new_in_txn:
                mo.owned = False
            if mo.owned:
                mo.value = mo.committed
            mo.in_root = mo.c_in_root
            mo.in_a = mo.c_in_a
            mo.dirty = False
            mo.new_in_txn = False
        self.root_dirty = False
        self.handles = []
        self.joined = False
        self.rivalled = False

    # -- stepping ---------------------------------------------------------
    def apply(self, op, spec=None):
        if self.dead:
            return 'dead'
        try:
            out = self._apply(op)
        except Exception as e:      # noqa: B902
            self.bad('error', '%s:%s' % (op[0], type(e).__name__),
                     dict(op=op, error=repr(e)[:300]))
            self.dead = True
            out = 'error'
        self.outcomes.append(out)
        # the observer looks at everything after every step (the oracle runs
        # only at the end of a replayed history), so that its cache holds
        # the objects as of its last look and a missing invalidation shows
        try:
            self.tm2.abort()
            oroot = self.obs.root()
            for key in list(oroot.keys()):
                try:
                    self._val(oroot[key])
                except Exception:
                    pass
        except Exception:
            pass
        return out

    def _apply(self, op):
        k = op[0]
        m = self.model
        root = self.conn.root()
        env.CLOCK.now += 1
        self.last_stored = None
        if k == 'mod':
            n = op[1]
            self.objs[n].v = m[n].value = self.newval()
            if m[n].owned:
                m[n].dirty = True
                self.joined = True
            return 'mod'
        if k == 'bwrite':
            n = op[1]
            data = b'blob-%03d' % self.newval()
            with self.objs[n].open('w') as f:
                f.write(data)
            m[n].value = data
            m[n].dirty = True
            self.joined = True
            return 'bwrite'
        if k == 'link':
            n = op[1]
            root[n] = self.objs[n]
            m[n].in_root = True
            self.root_dirty = True
            self.joined = True
            return 'link'
        if k == 'linka':
            n = op[1]
            self.objs['a'].child = self.objs[n]
            for mo in m.values():
                mo.in_a = False
            m[n].in_a = True
            m['a'].dirty = True
            self.joined = True
            return 'linka'
        if k == 'unlink':
            n = op[1]
            del root[n]
            m[n].in_root = False
            self.root_dirty = True
            self.joined = True
            return 'unlink'
        if k == 'add':
            n = op[1]
            self.conn.add(self.objs[n])
            m[n].owned = True
            m[n].new_in_txn = True
            self.joined = True
            return 'add'
        if k == 'savepoint':
            sp = self.tm.savepoint()
            self._model_flush()
            for mo in m.values():
                mo.dirty = mo.dirty     # still part of the transaction
            snap = ({n: mo.copy() for n, mo in m.items()}, self.root_dirty,
                    self.joined)
            self.handles.append((sp, snap))
            # (a savepoint does not make a connection that has changed
            # nothing take part in the transaction)
            return 'savepoint'
        if k == 'rollback':
            j = op[1]
            sp, (snap, rd, was_joined) = self.handles[j]
            sp.rollback()
            # a connection that joined after the savepoint is aborted by
            # the rollback and no longer takes part
            self.joined = was_joined
            for n in m:
                cur_value = m[n].value
                cur_committed = (m[n].committed, m[n].c_in_root,
                                 m[n].c_in_a)
                m[n] = snap[n].copy()
                # what is committed is not the savepoint's business (a rival
                # may have committed since)
                m[n].committed, m[n].c_in_root, m[n].c_in_a = cur_committed
                if not m[n].owned:
                    # an object that was not in the database at the savepoint
                    # is un-added; its in-memory attributes are nobody's
                    # business and stay as they are
                    m[n].value = cur_value
            self.root_dirty = rd
            del self.handles[j + 1:]
            return 'rollback'
        if k == 'rival':
            # another connection (kept open, so that the pool only ever
            # holds the main connection) commits a change to 'a' first
            self.tm3.abort()
            v = self.newval()
            self.c3.root()['a'].v = v
            self.tm3.commit()
            m['a'].committed = v
            self.rivalled = True
            return 'rival'
        if k == 'abort':
            self.tm.abort()
            self._model_abort()
            return 'abort'
        if k in ('commit-unpicklable', 'savepoint-unpicklable'):
            n = op[1]
            o = self.objs[n]
            o.bad = (lambda: 0)
            if m[n].owned:
                m[n].dirty = True
            try:
                if k == 'commit-unpicklable':
                    self.tm.commit()
                else:
                    self.tm.savepoint()
                self.bad('commit', 'unpicklable-state-committed', dict(obj=n))
                self.dead = True
                return 'error'
            except Exception:       # noqa: B902 (the pickle module's choice)
                pass
            self.tm.abort()
            try:
                del o.bad
            except AttributeError:
                pass
            self._model_abort()
            return k
        if k in ('commit', 'commit-vote-fail', 'commit-finish-fail'):
            return self._commit(k)
        if k == 'close':
            if self.joined:
                r = call(self.conn.close)
                if not (isinstance(r, Exc)
                        and r.name == 'ConnectionStateError'):
                    self.bad('close', 'closed-inside-transaction',
                             dict(got=repr(r)))
                    self.dead = True
                return 'close-refused'
            oids = {n: self.objs[n]._p_oid for n in m if m[n].owned}
            self.conn.close()
            self.conn = self.db.open(self.tm)
            # objects belong to a connection: fetch them again by oid
            for n, oid in oids.items():
                self.objs[n] = self.conn.get(oid)
            # a closed connection is out of any transaction: boundary
            self._model_abort()
            return 'close-reopen'
        raise ValueError(op)

    def _commit(self, how):
        m = self.model
        CE = env.mod('ZODB.POSException').ConflictError
        expect_conflict = getattr(self, 'rivalled', False) and m['a'].dirty
        restore = None
        if how == 'commit-vote-fail':
            self.tm.get().join(FailingRM('vote'))
        elif how == 'commit-finish-fail':
            st = self.storage
            orig = st.tpc_finish

            def failing(*a, **k):
                raise RuntimeError('scripted storage failure in tpc_finish')
            st.tpc_finish = failing
            restore = (st, orig)
        before = self.storage.lastTransaction()
        try:
            try:
                self.tm.commit()
                outcome = 'ok'
            except CE:
                outcome = 'conflict'
            except RuntimeError:
                outcome = 'failed'
        finally:
            if restore:
                try:
                    del restore[0].tpc_finish
                except AttributeError:
                    restore[0].tpc_finish = restore[1]
        if outcome != 'ok':
            self.tm.abort()
        exp = 'conflict' if expect_conflict else (
            'failed' if how != 'commit' else 'ok')
        if expect_conflict and how == 'commit-vote-fail':
            exp = 'conflict'        # the store comes before the vote
        if outcome != exp:
            self.bad('commit', '%s:%s-instead-of-%s' % (how, outcome, exp),
                     dict(expected=exp, got=outcome))
            self.dead = True
            return 'error'
        if outcome == 'ok':
            stored = self._model_commit()
            after = self.storage.lastTransaction()
            if stored:
                self.last_stored = (stored, before, after)
            return 'commit'
        self._model_abort()
        return 'commit-' + outcome

    def fingerprint(self):
        """Abstract state: flags of every object, value relations, open
        savepoints; concrete counter values are abstracted away."""
        out = []
        for n in sorted(self.model):
            mo = self.model[n]
            out.append((n, mo.owned, mo.in_root, mo.dirty, mo.new_in_txn,
                        mo.c_in_root, mo.in_a, mo.c_in_a,
                        mo.committed is None,
                        mo.value == mo.committed))
        return (tuple(out), len(self.handles), self.joined, self.root_dirty,
                getattr(self, 'rivalled', False), self.kind)

    # -- oracle -----------------------------------------------------------
    def check(self, res=None):
        """Compare every tracked object with the model.  Returns number of
        comparisons."""
        n = 0
        m = self.model
        conn = self.conn
        in_txn = self.joined
        for name, mo in m.items():
            o = self.objs[name]
            n += 1
            if mo.owned:
                if o._p_jar is not conn or o._p_oid is None:
                    self.bad('flags', 'lost-ownership:%s' % self._kindof(
                        name), dict(obj=name, jar=repr(o._p_jar),
                                    oid=o._p_oid))
                    continue
                r = call(lambda: self._val(o))
                if r != mo.value:
                    self.bad('state', 'wrong-value:%s' % self._kindof(name),
                             dict(obj=name, expected=mo.value, got=repr(r)))
                    continue
                if not in_txn and o._p_changed:
                    self.bad('flags', 'dirty-outside-transaction',
                             dict(obj=name))
                if mo.dirty and not self.handles and not o._p_changed:
                    self.bad('flags', 'modified-but-clean', dict(obj=name))
            else:
                if o._p_jar is not None or o._p_oid is not None:
                    self.bad('flags', 'still-owned:%s' % self._kindof(name),
                             dict(obj=name, jar=repr(o._p_jar),
                                  oid=o._p_oid))
        # working root membership
        root = conn.root()
        r = call(lambda: sorted(k for k in root.keys()))
        want = sorted(nm for nm, mo in m.items() if mo.in_root)
        n += 1
        if r != want:
            self.bad('state', 'root-keys', dict(expected=want, got=repr(r)))
        # one tid for everything stored by the last commit
        if self.last_stored:
            stored, before, after = self.last_stored
            n += 1
            if not (isinstance(after, bytes) and after > before):
                self.bad('onetid', 'no-new-transaction', dict(
                    before=before, after=after))
            else:
                oids = self._oids_of_txn(after)
                want_oids = {}
                for nm in stored:
                    if nm == 'root':
                        want_oids[b'\0' * 8] = nm
                    else:
                        want_oids[self.objs[nm]._p_oid] = nm
                if set(oids) != set(want_oids):
                    self.bad('onetid', 'stored-set', dict(
                        expected=sorted(want_oids.values()),
                        got=[want_oids.get(x, x.hex()) for x in oids]))
                for nm in stored:
                    if nm != 'root' and self.objs[nm]._p_serial != after:
                        self.bad('onetid', 'serial', dict(
                            obj=nm, serial=self.objs[nm]._p_serial,
                            tid=after))
        # the observer sees exactly the committed state
        self.tm2.abort()
        oroot = self.obs.root()
        got = {}
        for key in sorted(oroot.keys()):
            x = call(lambda: self._val(oroot[key]))
            got[key] = x if not isinstance(x, Exc) else repr(x)
        wantc = {nm: mo.committed for nm, mo in m.items() if mo.c_in_root}
        n += 1
        if got != wantc:
            self.bad('isolated', 'observer', dict(expected=wantc, got=got))
        return n

    @staticmethod
    def _val(o):
        if hasattr(o, 'consumeFile'):       # a Blob
            with o.open('r') as f:
                return f.read()
        return o.v

    def _kindof(self, name):
        return 'new' if name in NEW else (
            'blob' if name in self.blobs else 'existing')

    def _oids_of_txn(self, tid):
        it = self.storage.iterator(tid, tid)
        try:
            for t in it:
                return [r.oid for r in t]
        finally:
            getattr(it, 'close', lambda: None)()
        return []
