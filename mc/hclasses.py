"""Harness classes whose pickles are the record payloads of storage-level
histories.  Importable as mc.hclasses so that ZODB's conflict resolution can
find them.  States are dicts {'v': int, 'refs': [refs...], 'pad': bytes}.
"""
import io
import pickle

from persistent import Persistent

RESOLVE_LOG = []          # (old_state, committed_state, new_state) per call
RESOLVE_MODE = ['merge']  # 'merge' | 'fail' | 'raise'


class P(Persistent):
    """No conflict resolution."""


class R(Persistent):
    """Scripted, recording resolver: three-way merge of the counter 'v'."""

    def _p_resolveConflict(self, old, committed, new):
        RESOLVE_LOG.append((sem_state(old), sem_state(committed),
                            sem_state(new)))
        mode = RESOLVE_MODE[0]
        if mode == 'fail':
            from ZODB.POSException import ConflictError
            raise ConflictError
        if mode == 'raise':
            raise AttributeError('scripted resolver failure')
        res = dict(new)
        res['v'] = merge_v(old['v'], committed['v'], new['v'])
        return res


def merge_v(old, committed, new):
    return committed + new - old + 1000


class Ref:
    """Stand-in for a persistent reference when hand-assembling a record."""

    def __init__(self, oid, fmt='tuple'):
        self.oid = oid
        self.fmt = fmt


def _pid(obj):
    if isinstance(obj, Ref):
        if obj.fmt == 'tuple':
            return (obj.oid, P)
        if obj.fmt == 'oid':
            return obj.oid
        if obj.fmt == 'weak':
            return ['w', (obj.oid,)]
        raise ValueError(obj.fmt)
    return None


def mkrec(cls, v, refs=(), pad=0):
    """Assemble a ZODB record exactly the way ZODB itself pickles one (one
    pickler, shared memo, class first, then the state), so that a record
    produced by conflict resolution for the same state has the same bytes."""
    from ZODB._compat import PersistentPickler, _protocol
    f = io.BytesIO()
    p = PersistentPickler(_pid, f, _protocol)
    p.dump(cls if isinstance(cls, type) else globals()[cls])
    p.dump({'v': v, 'refs': [Ref(o) for o in refs], 'pad': b'x' * pad})
    return f.getvalue()


def sem_state(state):
    """Semantic view of a state dict as seen by a resolver."""
    refs = []
    for r in state.get('refs', ()):
        oid = getattr(r, 'oid', None)
        refs.append(oid if oid is not None else repr(r))
    return (state.get('v'), tuple(refs), len(state.get('pad', b'')))


def decode(data):
    """(classname, v, refs, padlen) of a record made by mkrec or by conflict
    resolution of such records; None if it is not one."""
    try:
        f = io.BytesIO(data)
        refs = []

        def pl(pid):
            if isinstance(pid, tuple):
                refs.append(pid[0])
            elif isinstance(pid, list):
                refs.append(('weak', pid[1][0]))
            else:
                refs.append(pid)
            return None

        u = pickle.Unpickler(f)     # one unpickler: the memo is shared
        u.persistent_load = pl
        cls = u.load()
        if isinstance(cls, tuple):
            cls = cls[0]
        st = u.load()
        return (cls.__name__, st['v'], tuple(refs), len(st['pad']))
    except Exception:
        return None


# ------------------------------------------------------------ C10 classes

CR_LOG = []     # (old, committed, new) as seen by resolvers, semantic form


def ref_sem(r):
    """(oid, database_name, weak) of a reference as a resolver sees it."""
    return (getattr(r, 'oid', None), getattr(r, 'database_name', None),
            bool(getattr(r, 'weak', False)))


def cr_sem(state):
    return (state.get('v'), tuple(ref_sem(r) for r in state.get('refs', ())),
            state.get('mode'))


class CR(Persistent):
    """Resolver scripted through the object's own state: mode 'merge' does a
    three-way merge of the counter, 'conflict' raises ConflictError, 'error'
    raises AttributeError."""

    def _p_resolveConflict(self, old, committed, new):
        CR_LOG.append((cr_sem(old), cr_sem(committed), cr_sem(new)))
        mode = new.get('mode')
        if mode == 'conflict':
            from ZODB.POSException import ConflictError
            raise ConflictError
        if mode == 'error':
            raise AttributeError('scripted resolver failure')
        res = dict(new)
        res['v'] = committed['v'] + new['v'] - old['v']
        return res


import datetime as _datetime

SHARED_DAY = _datetime.date(2020, 1, 2)
CRS_SEEN = []   # (old, committed, new) 'day' values as the resolver saw them


class CRS(CR):
    """Like CR in mode 'merge', but the object's state shares an object
    with its class metadata: __getnewargs__ returns the very `day` that is
    also an attribute (both parts of a record are written by one pickler,
    so the state refers back into the class part).  The merged state is
    built from the committed one."""

    def __new__(cls, day=None):
        return Persistent.__new__(cls)

    def __getnewargs__(self):
        return (self.day,)

    def _p_resolveConflict(self, old, committed, new):
        CR_LOG.append((cr_sem(old), cr_sem(committed), cr_sem(new)))
        CRS_SEEN.append(tuple(repr(s.get('day'))
                              for s in (old, committed, new)))
        res = dict(committed)
        res['v'] = committed['v'] + new['v'] - old['v']
        return res


class CRarity(Persistent):
    """Resolver with the wrong arity."""

    def _p_resolveConflict(self, old, committed):
        return committed


class NA(Persistent):
    """A class with __getnewargs__: references to it are stored as bare
    oids."""

    def __getnewargs__(self):
        return ()
