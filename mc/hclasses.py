"""Harness classes whose pickles are the record payloads of storage-level
histories.  Importable as mc.hclasses so that ZODB's conflict resolution can
find them.  States are dicts {'v': int, 'refs': [refs...], 'pad': bytes}.
"""
import io
import pickle

from persistent import Persistent

RESOLVE_LOG = []          # (old_state, committed_state, new_state) per call
RESOLVE_MODE = ['merge']  # 'merge' | 'fail' | 'raise'


class P(Persistent):
    """No conflict resolution."""


class R(Persistent):
    """Scripted, recording resolver: three-way merge of the counter 'v'."""

    def _p_resolveConflict(self, old, committed, new):
        RESOLVE_LOG.append((sem_state(old), sem_state(committed),
                            sem_state(new)))
        mode = RESOLVE_MODE[0]
        if mode == 'fail':
            from ZODB.POSException import ConflictError
            raise ConflictError
        if mode == 'raise':
            raise AttributeError('scripted resolver failure')
        res = dict(new)
        res['v'] = merge_v(old['v'], committed['v'], new['v'])
        return res


def merge_v(old, committed, new):
    return committed + new - old + 1000


class Ref:
    """Stand-in for a persistent reference when hand-assembling a record."""

    def __init__(self, oid, fmt='tuple'):
        self.oid = oid
        self.fmt = fmt


def _pid(obj):
    if isinstance(obj, Ref):
        if obj.fmt == 'tuple':
            return (obj.oid, P)
        if obj.fmt == 'oid':
            return obj.oid
        if obj.fmt == 'weak':
            return ['w', (obj.oid,)]
        raise ValueError(obj.fmt)
    return None


def mkrec(cls, v, refs=(), pad=0):
    """Hand-assemble a ZODB record: class pickle + state pickle."""
    f = io.BytesIO()
    p = pickle.Pickler(f, 3)
    p.persistent_id = _pid
    p.dump(cls if isinstance(cls, type) else globals()[cls])
    p = pickle.Pickler(f, 3)
    p.persistent_id = _pid
    p.dump({'v': v, 'refs': [Ref(o) for o in refs], 'pad': b'x' * pad})
    return f.getvalue()


def sem_state(state):
    """Semantic view of a state dict as seen by a resolver."""
    refs = []
    for r in state.get('refs', ()):
        oid = getattr(r, 'oid', None)
        refs.append(oid if oid is not None else repr(r))
    return (state.get('v'), tuple(refs), len(state.get('pad', b'')))


def decode(data):
    """(classname, v, refs, padlen) of a record made by mkrec or by conflict
    resolution of such records; None if it is not one."""
    try:
        f = io.BytesIO(data)
        refs = []

        def pl(pid):
            if isinstance(pid, tuple):
                refs.append(pid[0])
            elif isinstance(pid, list):
                refs.append(('weak', pid[1][0]))
            else:
                refs.append(pid)
            return None

        u = pickle.Unpickler(f)
        u.persistent_load = pl
        cls = u.load()
        if isinstance(cls, tuple):
            cls = cls[0]
        u = pickle.Unpickler(f)
        u.persistent_load = pl
        st = u.load()
        return (cls.__name__, st['v'], tuple(refs), len(st['pad']))
    except Exception:
        return None
