"""Evidence files, VIOLATION / KNOWN-FINDING protocol, replay files."""
import hashlib
import json
import os
import sys
import time

VERIF = os.path.dirname(os.path.dirname(os.path.abspath(__file__)))
KNOWN = os.path.join(VERIF, 'known_findings.json')


def jsonable(x):
    if isinstance(x, bytes):
        return 'hex:' + x.hex() if len(x) <= 64 else \
            'hex:%s..(%d bytes)' % (x[:24].hex(), len(x))
    if isinstance(x, (list, tuple)):
        return [jsonable(i) for i in x]
    if isinstance(x, (set, frozenset)):
        return sorted((jsonable(i) for i in x), key=repr)
    if isinstance(x, dict):
        return {str(k if not isinstance(k, bytes) else k.hex()): jsonable(v)
                for k, v in x.items()}
    if isinstance(x, (str, int, float, bool)) or x is None:
        return x
    return repr(x)


def load_known(prop):
    try:
        with open(KNOWN) as f:
            data = json.load(f)
    except FileNotFoundError:
        return []
    return [k for k in data.get('findings', []) if k.get('property') == prop]


class Violation:
    __slots__ = ('clause', 'sig', 'witness', 'detail')

    def __init__(self, clause, sig, witness, detail):
        self.clause = clause        # e.g. 'C04.battery'
        self.sig = sig              # canonical signature string
        self.witness = witness      # jsonable replay input
        self.detail = detail        # jsonable explanation

    def astuple(self):
        return (self.clause, self.sig, self.witness, self.detail)


class Reporter:
    """Collects what one run of one check covered and found."""

    def __init__(self, prop, tier, seed):
        self.prop = prop
        self.tier = tier
        self.seed = seed
        self.t0 = time.time()
        self.cov = dict(states=0, transitions=0,
                        traces_validated_against_impl=0, evaluations=0,
                        distinct_nontrivial=0, exhaustive=True)
        self.rule = ''
        self.samples = []
        self.bounds = {}
        self.caps = []
        self.outcomes = {}       # name -> count   (vacuity guard)
        self.clauses = {}        # clause -> non-trivial comparisons made
        self.assumptions = []
        self.violations = {}     # sig -> Violation (first seen)
        self.vcount = {}         # sig -> occurrences
        self.notes = []

    # -- accumulation -----------------------------------------------------
    def add(self, **kw):
        for k, v in kw.items():
            self.cov[k] = self.cov.get(k, 0) + v

    def outcome(self, name, n=1):
        self.outcomes[name] = self.outcomes.get(name, 0) + n

    def clause(self, name, n=1):
        self.clauses[name] = self.clauses.get(name, 0) + n

    def merge_counts(self, d):
        """Merge a worker's partial result dict (see seqx / sched)."""
        for k, v in d.get('cov', {}).items():
            self.cov[k] = self.cov.get(k, 0) + v
        for k, v in d.get('outcomes', {}).items():
            self.outcomes[k] = self.outcomes.get(k, 0) + v
        for k, v in d.get('clauses', {}).items():
            self.clauses[k] = self.clauses.get(k, 0) + v
        for v in d.get('violations', []):
            self.violation(*v[:4], count=v[4] if len(v) > 4 else 1)
        for s in d.get('samples', []):
            if len(self.samples) < 12:
                self.samples.append(s)
        for c in d.get('caps', []):
            self.cap(c)

    def violation(self, clause, sig, witness, detail, count=1):
        if sig not in self.violations:
            self.violations[sig] = Violation(clause, sig, witness, detail)
        else:
            # keep the shortest witness
            old = self.violations[sig]
            if len(json.dumps(jsonable(witness))) < \
                    len(json.dumps(jsonable(old.witness))):
                self.violations[sig] = Violation(clause, sig, witness, detail)
        self.vcount[sig] = self.vcount.get(sig, 0) + count

    def cap(self, text):
        if text not in self.caps:
            self.caps.append(text)
        self.cov['exhaustive'] = False

    # -- finish -----------------------------------------------------------
    def finish(self):
        known = load_known(self.prop)
        new, matched = [], []
        for sig, v in sorted(self.violations.items()):
            k = None
            for cand in known:
                if sig in cand.get('signatures', []) or any(
                        sig.startswith(p)
                        for p in cand.get('signature_prefixes', [])) or any(
                        sig.endswith(p)
                        for p in cand.get('signature_suffixes', [])):
                    k = cand
                    break
            if k is None:
                new.append(v)
            else:
                matched.append((k, v))
        # known findings: one line per listed finding that was observed
        seen = set()
        for k, v in matched:
            seen.add(k['id'])
        for k in known:
            print('KNOWN-FINDING: property=%s %s [%s]' % (
                self.prop, k['what'],
                'reproduced in this run' if k['id'] in seen
                else 'not reached within this tier\'s bounds'))
        rdir = os.path.join(VERIF, 'replays', self.prop)
        if os.environ.get('VERIF_NO_EVIDENCE'):
            rdir = os.path.join(VERIF, 'replays', '_mutation', self.prop)
        paths = []
        for v in new:
            os.makedirs(rdir, exist_ok=True)
            h = hashlib.sha1(v.sig.encode()).hexdigest()[:12]
            path = os.path.join(rdir, h + '.json')
            with open(path, 'w') as f:
                json.dump(dict(property=self.prop, clause=v.clause,
                               signature=v.sig, witness=jsonable(v.witness),
                               detail=jsonable(v.detail),
                               occurrences=self.vcount[v.sig]), f, indent=1)
            paths.append(path)
            rel = os.path.relpath(path, VERIF)
            print('VIOLATION property=%s replay=%s' % (self.prop, rel))
            print('   clause=%s sig=%s occurrences=%d' % (
                v.clause, v.sig, self.vcount[v.sig]))
            print('   detail=%s' % json.dumps(jsonable(v.detail))[:600])
        wall = time.time() - self.t0
        cov = dict(self.cov)
        for k in ('states', 'transitions', 'traces_validated_against_impl',
                  'evaluations', 'distinct_nontrivial'):
            cov[k] = int(cov.get(k, 0))
        cov['rule'] = self.rule
        cov['samples'] = jsonable(self.samples) or ['(none recorded)']
        cov['bounds_completed'] = jsonable(self.bounds)
        cov['caps_hit'] = self.caps
        cov['distinct_outcomes'] = self.outcomes
        cov['clause_comparisons'] = self.clauses
        cov['known_findings_observed'] = sorted(seen)
        cov['notes'] = self.notes
        ev = dict(property_id=self.prop, tier=self.tier, seed=self.seed,
                  level='model_checking', coverage=cov,
                  assumptions=self.assumptions, wall_s=round(wall, 2),
                  violations=len(new))
        edir = os.path.join(VERIF, 'evidence')
        if os.environ.get('VERIF_NO_EVIDENCE'):
            # mutation / self-test runs must not overwrite committed evidence
            edir = os.path.join(VERIF, 'replays', '_mutation_evidence')
        os.makedirs(edir, exist_ok=True)
        path = os.path.join(edir, self.prop + '.json')
        tmp = path + '.tmp'
        with open(tmp, 'w') as f:
            json.dump(ev, f, indent=1, sort_keys=True)
            f.write('\n')
        os.replace(tmp, path)
        print('%s %s: states=%d transitions=%d executions=%d evaluations=%d '
              'nontrivial=%d exhaustive=%s outcomes=%d violations=%d '
              'known=%d wall=%.1fs' % (
                  self.prop, self.tier, cov['states'], cov['transitions'],
                  cov['traces_validated_against_impl'], cov['evaluations'],
                  cov['distinct_nontrivial'], cov['exhaustive'],
                  len(self.outcomes), len(new), len(seen), wall))
        sys.stdout.flush()
        return 1 if new else 0
