"""A real storage and its reference model, stepped together.

World.apply(op) executes one step (usually one whole transaction attempt) on
the real storage, predicts its result with the model, compares, and updates
the model.  Mismatches are collected in world.violations as
(clause, sig_suffix, detail).
"""
import os
from base64 import encodebytes

from . import env, hclasses, iolog
from .battery import Exc, call, norm_exc, p64, u64
from .refmodel import Model, Rec, Txn, Z64


def TMD(user=b'', desc=b'', ext=None):
    return env.mod('ZODB.Connection').TransactionMetaData(user, desc, ext)


class Spec:
    """Alphabet of a storage-level exploration."""

    def __init__(self, kinds, oids=(1, 2), classes=None, undo_k=3,
                 with_root=False):
        self.kinds = list(kinds)
        self.oids = list(oids)
        self.classes = classes or {}
        self.undo_k = undo_k
        self.with_root = with_root

    def cls(self, o):
        return self.classes.get(o, 'P')


class World:
    def __init__(self, kind='F', record=False, bufsize=8192, blobs=None):
        self.kind = kind
        self.dir = env.new_dir('w')
        self.path = os.path.join(self.dir, 'Data.fs')
        self.blob_dir = os.path.join(self.dir, 'blobs') \
            if (kind == 'Fb' or blobs) else None
        self.flavor = 'F' if kind in ('F', 'Fb') else 'M'
        self.model = Model(self.flavor)
        self.violations = []
        self.outcomes = []
        self.vcount = 0              # value counter: every record distinct
        self.next_tick = 1.0
        self.transitions = 0
        self.packed = False
        self.expected_merges = []
        self.record = record
        if record:
            iolog.install()
            iolog.LOG.reset(self.dir, bufsize)
            iolog.LOG.recording = True
        self.storage = None
        self.open()

    # -- life cycle -------------------------------------------------------
    def open(self, **kw):
        if self.kind in ('F', 'Fb'):
            FS = env.mod('ZODB.FileStorage.FileStorage').FileStorage
            if self.blob_dir:
                kw.setdefault('blob_dir', self.blob_dir)
            self.storage = FS(self.path, **kw)
        elif self.kind == 'M':
            self.storage = env.mod('ZODB.MappingStorage').MappingStorage()
        else:
            raise ValueError(self.kind)
        return self.storage

    def close(self):
        try:
            if self.storage is not None:
                self.storage.close()
        except Exception:
            pass
        self.storage = None
        if self.record:
            iolog.LOG.recording = False
        env.rm_dir(self.dir)

    def bad(self, clause, sig, detail):
        self.violations.append((clause, sig, detail))

    # -- alphabet ---------------------------------------------------------
    def oid(self, o):
        return p64(o)

    def enabled(self, spec):
        m = self.model
        live = [o for o in spec.oids if m.live(self.oid(o))]
        unused = [o for o in spec.oids if m.cur(self.oid(o)) is None]
        ops = []
        for k in spec.kinds:
            if self.packed and k in ('undo', 'undo2', 'stale', 'restore',
                                     'stalegone', 'undotry'):
                continue    # the list model does not follow a pack
            if k == 'new':
                # symmetry: only the lowest unused oid of each class
                seen = set()
                for o in unused:
                    if spec.cls(o) not in seen:
                        seen.add(spec.cls(o))
                        ops.append(('new', o))
            elif k == 'new2':
                if len(unused) >= 2:
                    ops.append(('new2', unused[0], unused[1]))
            elif k == 'mod':
                ops += [('mod', o) for o in live]
            elif k == 'mod2':
                if len(live) >= 2:
                    ops.append(('mod2', live[0], live[1]))
            elif k == 'newmod':
                if live and unused:
                    ops.append(('newmod', unused[0], live[0]))
            elif k == 'big':
                if live:
                    ops.append(('big', live[0]))
                elif unused:
                    ops.append(('bignew', unused[0]))
            elif k == 'meta':
                if live:
                    ops += [('meta', live[0], 1), ('meta', live[0], 65535),
                            ('meta', live[0], 'user'),
                            ('meta', live[0], 'desc'),
                            ('meta', live[0], 'ext'),
                            ('meta', live[0], 'extkeys')]
            elif k == 'empty':
                ops.append(('empty',))
            elif k == 'del':
                ops += [('del', o) for o in live]
            elif k == 'undo':
                # (undo of a transaction that itself wrote one oid twice is
                # outside the modelled alphabet)
                ul = [d for d in m.undoLog() if d['_n']]
                n = min(spec.undo_k, len(ul))
                ops += [('undo', i) for i in range(n) if not ul[i]['_dup']]
            elif k == 'undotry':
                # a storage client that catches the refusal of an undo and
                # goes on to commit the (otherwise empty) transaction
                ul = [d for d in m.undoLog() if d['_n']]
                n = min(spec.undo_k, len(ul))
                ops += [('undotry', i) for i in range(n)
                        if not ul[i]['_dup'] and self.plan(
                            [('undo', self._tid_of(ul[i]))])[0] != 'ok']
            elif k == 'undo2':
                ul = [d for d in m.undoLog() if d['_n']]
                if len(ul) >= 2 and not ul[0]['_dup'] and not ul[1]['_dup']:
                    ops.append(('undo2', 0, 1))
                    ops.append(('undo2', 1, 0))     # older one first
            elif k == 'stale':
                for o in live:
                    if len(m.recs(self.oid(o))) >= 2:
                        ops.append(('stale', o))
            elif k == 'stalegone':
                # a writer that still holds a revision of an object whose
                # current record is an un-creation / deletion
                for o in spec.oids:
                    rs = m.recs(self.oid(o))
                    if len(rs) >= 2 and rs[-1].resolve() is None and \
                            rs[-2].resolve() is not None:
                        ops.append(('stalegone', o))
            elif k == 'same':
                ops += [('same', o) for o in live[:1]]
            elif k == 'recreate':
                for o in spec.oids:
                    c = m.cur(self.oid(o))
                    if c is not None and c.resolve() is None:
                        ops.append(('recreate', o))
            elif k == 'ab0':
                ops.append(('ab0',))
            elif k in ('ab1', 'ab2'):
                if live:
                    ops.append((k, live[0]))
                elif unused:
                    ops.append((k, unused[0]))
            elif k == 'stall':
                if self.next_tick == 1.0:
                    ops.append(('stall',))
            elif k == 'back':
                if self.next_tick == 1.0:
                    ops.append(('back',))
            elif k == 'reopen':
                if self.kind != 'M':
                    ops.append(('reopen',))
            elif k == 'reopenx':
                # reopen without the index file: full scan of the data file
                if self.kind != 'M':
                    ops.append(('reopenx',))
            elif k == 'restore':
                ops += self._restore_ops(spec, live, unused)
            elif k == 'pack':
                if m.txns:
                    ops.append(('pack',))
            else:
                raise ValueError(k)
        return ops

    def _restore_ops(self, spec, live, unused):
        ops = []
        if live:
            ops.append(('restore', live[0], 'next'))
            ops.append(('restore', live[0], 'hour'))
            # a transaction copied in with the status of a packed one
            ops.append(('restore', live[0], 'packed'))
            rs = self.model.recs(self.oid(live[0]))
            if len(rs) >= 2 and rs[-2].resolve() is not None:
                ops.append(('restore-back', live[0]))
        elif unused:
            ops.append(('restore', unused[0], 'next'))
        return ops

    # -- stepping ---------------------------------------------------------
    def tick(self):
        env.CLOCK.now += self.next_tick
        self.next_tick = 1.0

    def newval(self):
        self.vcount += 1
        return self.vcount

    def rec(self, spec, o, pad=0, refs=()):
        return hclasses.mkrec(spec.cls(o), self.newval(), refs, pad)

    def apply(self, op, spec):
        if getattr(self, 'dead', False):
            return 'dead'
        try:
            out = self._apply(op, spec)
        except Exception as e:      # noqa: B902
            # nothing in the alphabet is outside the API's preconditions, so
            # an exception escaping a step is a finding, not a harness error
            self.bad('error', '%s:%s' % (op[0], type(e).__name__),
                     dict(op=op, error=repr(e)[:300]))
            self.dead = True
            out = 'error'
        self.outcomes.append(out)
        return out

    def _apply(self, op, spec):
        """Returns an outcome label."""
        self.transitions += 1
        k = op[0]
        m = self.model
        O = self.oid
        if k == 'stall':
            self.next_tick = 0.0
            return 'stall'
        if k == 'back':
            self.next_tick = -10.0
            return 'back'
        if k in ('reopen', 'reopenx'):
            self.tick()
            self.storage.close()
            if k == 'reopenx' and os.path.exists(self.path + '.index'):
                os.unlink(self.path + '.index')
            self.open()
            return k
        self.tick()
        if k == 'pack':
            from ZODB.serialize import referencesf
            self.packed = True
            r = call(self.storage.pack, env.CLOCK.now, referencesf, gc=False)
            if isinstance(r, Exc):
                from ZODB.POSException import POSError
                self.bad('step', 'pack:%s' % r.name, dict(got=repr(r)))
                return 'pack-error'
            return 'pack'
        if k == 'new':
            return self.txn([('store', O(op[1]), Z64, self.rec(spec, op[1]))])
        if k == 'new2':
            return self.txn([('store', O(op[1]), Z64, self.rec(spec, op[1])),
                             ('store', O(op[2]), Z64, self.rec(spec, op[2]))])
        if k == 'bignew':
            return self.txn([('store', O(op[1]), Z64,
                              self.rec(spec, op[1], pad=9000))])
        if k == 'mod':
            o = O(op[1])
            return self.txn([('store', o, m.current_serial(o),
                              self.rec(spec, op[1]))])
        if k == 'same':
            o = O(op[1])
            return self.txn([('store', o, m.current_serial(o),
                              m.cur(o).resolve())])
        if k == 'recreate':
            o = O(op[1])
            return self.txn([('store', o, m.current_serial(o),
                              self.rec(spec, op[1]))])
        if k == 'mod2':
            a, b = O(op[1]), O(op[2])
            return self.txn([
                ('store', a, m.current_serial(a), self.rec(spec, op[1])),
                ('store', b, m.current_serial(b), self.rec(spec, op[2]))])
        if k == 'newmod':
            a, b = O(op[1]), O(op[2])
            return self.txn([
                ('store', a, Z64, self.rec(spec, op[1])),
                ('store', b, m.current_serial(b), self.rec(spec, op[2]))])
        if k == 'big':
            o = O(op[1])
            return self.txn([('store', o, m.current_serial(o),
                              self.rec(spec, op[1], pad=9000))])
        if k == 'meta':
            o, n = O(op[1]), op[2]
            if isinstance(n, str):
                # only one of the three metadata fields is non-empty
                return self.txn([('store', o, m.current_serial(o),
                                  self.rec(spec, op[1]))],
                                user=b'usr' if n == 'user' else b'',
                                desc=b'dsc' if n == 'desc' else b'',
                                ext={'k': 'e'} if n == 'ext' else
                                # extension keys named like the entries the
                                # storage computes itself
                                {'id': b'x', 'description': b'y',
                                 'user_name': b'z', 'tid': b't',
                                 'k': 'e'} if n == 'extkeys' else None)
            return self.txn([('store', o, m.current_serial(o),
                              self.rec(spec, op[1]))],
                            user=b'u' * n, desc=b'd' * n,
                            ext={'k': 'e' * min(n, 100)})
        if k == 'empty':
            return self.txn([])
        if k == 'del':
            o = O(op[1])
            return self.txn([('delete', o, m.current_serial(o))])
        if k == 'undo':
            ul = [d for d in m.undoLog() if d['_n']]
            return self.txn([('undo', self._tid_of(ul[op[1]]))],
                            desc=b'undo')
        if k == 'undotry':
            ul = [d for d in m.undoLog() if d['_n']]
            return self.txn([('undo-try', self._tid_of(ul[op[1]]))],
                            desc=b'undotry')
        if k == 'undo2':
            ul = [d for d in m.undoLog() if d['_n']]
            return self.txn([('undo', self._tid_of(ul[op[1]])),
                             ('undo', self._tid_of(ul[op[2]]))],
                            desc=b'undo2')
        if k in ('stale', 'stalegone'):
            o = O(op[1])
            rs = m.recs(o)
            return self.txn([('store', o, rs[-2].tid, self.rec(spec, op[1]))])
        if k == 'ab0':
            return self.txn([], abort='begin')
        if k == 'ab1':
            o = O(op[1])
            return self.txn([('store', o, m.current_serial(o) or Z64,
                              self.rec(spec, op[1]))], abort='store')
        if k == 'ab2':
            o = O(op[1])
            return self.txn([('store', o, m.current_serial(o) or Z64,
                              self.rec(spec, op[1]))], abort='vote')
        if k == 'restore':
            o = O(op[1])
            last = m.last_tid()
            base = max(u64(last), u64(self._now_tid()))
            tid = p64(base + (3600 << 32 if op[2] == 'hour' else 1))
            return self.txn([('restore', o, self.rec(spec, op[1]), None)],
                            tid=tid, status='p' if op[2] == 'packed' else ' ')
        if k == 'restore-back':
            o = O(op[1])
            rs = m.recs(o)
            tid = p64(max(u64(m.last_tid()), u64(self._now_tid())) + 1)
            prev = rs[-2]
            return self.txn([('restore', o, prev.resolve(), prev.tid)],
                            tid=tid)
        raise ValueError(op)

    def _now_tid(self):
        from persistent.TimeStamp import TimeStamp
        import time
        t = env.CLOCK.now
        return TimeStamp(*time.gmtime(t)[:5] + (t % 60,)).raw()

    @staticmethod
    def _tid_of(undo_entry):
        from base64 import decodebytes
        return decodebytes(undo_entry['id'] + b'\n')

    # -- one transaction on model and implementation ---------------------
    def plan(self, actions):
        """Model prediction: ('ok', [Rec...], resolved_oids) or
        (failing_action_index, Exc)."""
        m = self.model
        recs = []
        resolved = []
        pending = {}          # oid -> Rec written earlier in this txn

        def cur(oid):
            return pending.get(oid) or m.cur(oid)

        for i, a in enumerate(actions):
            if a[0] == 'store':
                _, oid, serial, data = a
                c = m.cur(oid)
                if c is None or serial == c.tid:
                    r = Rec(oid, 'data', data)
                else:
                    merged = self._resolve(oid, c, serial, data)
                    if merged is None:
                        return (i, Exc('ConflictError'))
                    r = Rec(oid, 'data', merged)     # semantic until adopted
                    resolved.append(oid)
                recs.append(r)
                pending[oid] = r
            elif a[0] == 'delete':
                _, oid, serial = a
                c = m.cur(oid)
                if c is None:
                    return (i, Exc('POSKeyError'))
                if serial != c.tid:
                    return (i, Exc('ConflictError'))
                r = Rec(oid, 'zero')
                recs.append(r)
                pending[oid] = r
            elif a[0] == 'restore':
                _, oid, data, prev_tid = a
                r = None
                if data is None:
                    r = Rec(oid, 'zero')
                elif prev_tid is not None:
                    # hint: a back pointer is used only if that transaction
                    # holds identical data for the oid
                    for x in m.recs(oid):
                        if x.tid == prev_tid and x.resolve() == data:
                            r = Rec(oid, 'back', target=x)
                if r is None:
                    r = Rec(oid, 'data', data)
                recs.append(r)
                pending[oid] = r
            elif a[0] == 'undo-try':
                # (only offered when the model refuses the undo: nothing is
                # written, the transaction goes on; the records are looked
                # at all the same, and mergeable ones shown to the class)
                t = m.txn_by_tid(a[1])
                if t is not None and t.status == ' ':
                    tried = {}
                    for u in t.recs:
                        r = self._undo_rec(u, tried.get(u.oid) or cur(u.oid))
                        if r is not None:
                            tried[u.oid] = r
                continue
            elif a[0] == 'undo':
                t = m.txn_by_tid(a[1])
                if t is None or t.status != ' ':
                    return (i, Exc('UndoError'))
                out = []
                failed = False
                for u in t.recs:
                    r = self._undo_rec(u, cur(u.oid))
                    if r is None:
                        failed = True
                    else:
                        out.append(r)
                        pending[u.oid] = r
                        if r.kind == 'data':
                            resolved.append(u.oid)
                if failed:
                    return (i, Exc('UndoError'))
                recs += out
            else:
                raise ValueError(a)
        return ('ok', recs, resolved)

    def _undo_rec(self, u, c):
        """Record written when undoing record u while c is current; None if
        the undo must be refused."""
        m = self.model
        rs = m.recs(u.oid)
        i = rs.index(u)
        pre = rs[i - 1] if i > 0 else None
        same = c is u
        if not same:
            if c.kind == 'back' and c.target is u:
                same = True
            else:
                du = u.resolve()
                dc = c.resolve()
                if du is None or dc is None:
                    return None     # nothing to compare: refused
                same = self._norm(du) == self._norm(dc)
        if same:
            if pre is None:
                return Rec(u.oid, 'zero')
            return Rec(u.oid, 'back', target=pre)
        if pre is None:
            return None
        dp = pre.resolve()
        if dp is None:
            return None
        merged = self._merge(u.resolve(), c.resolve(), dp)
        if merged is None:
            return None
        return Rec(u.oid, 'data', merged)

    @staticmethod
    def _norm(x):
        """bytes, or the decoded form for a record merged earlier in this
        transaction (whose bytes are not known yet)."""
        if isinstance(x, tuple) and x and x[0] == 'sem':
            return x[1:]
        d = hclasses.decode(x)
        return d if d is not None else x

    def _resolve(self, oid, c, serial, data):
        """Three-way merge for a stale store; None = conflict."""
        old = None
        for x in self.model.recs(oid):
            if x.tid == serial:
                old = x.resolve()
        committed = c.resolve()
        if old is None or committed is None:
            return None
        return self._merge(old, committed, data)

    def _merge(self, old, committed, new):
        """Semantic merge ('sem', cls, v, refs, pad) or None."""
        # (a record merged earlier in the same transaction is still in its
        # semantic form)
        d = [x[1:] if isinstance(x, tuple) and x and x[0] == 'sem'
             else hclasses.decode(x) for x in (old, committed, new)]
        if any(x is None for x in d):
            return None
        if d[2][0] != 'R':
            return None
        v = hclasses.merge_v(d[0][1], d[1][1], d[2][1])
        # what the class's resolver must be shown: (old, committed, new)
        self.expected_merges.append(tuple(x[1:] for x in d))
        return ('sem', 'R', v, d[2][2], d[2][3])

    def txn(self, actions, user=b'', desc=b'', ext=None, abort=None,
            tid=None, status=' '):
        s = self.storage
        m = self.model
        self.expected_merges = []
        del hclasses.RESOLVE_LOG[:]
        plan = self.plan(actions)
        t = TMD(user, desc, ext)
        before_last = m.last_tid()
        if self.record:
            iolog.LOG.mark('begin', len(m.txns))
        if tid is not None:
            r = call(s.tpc_begin, t, tid, status)
        else:
            r = call(s.tpc_begin, t)
        if isinstance(r, Exc):
            self.bad('step', 'tpc_begin:%s' % r.name, dict(got=repr(r)))
            return 'error'
        if abort == 'begin':
            r = call(s.tpc_abort, t)
            if isinstance(r, Exc):
                self.bad('step', 'tpc_abort:%s' % r.name, dict(got=repr(r)))
            return 'abort0'
        for i, a in enumerate(actions):
            if a[0] == 'store':
                r = call(s.store, a[1], a[2], a[3], '', t)
            elif a[0] == 'delete':
                r = call(s.deleteObject, a[1], a[2], t)
            elif a[0] == 'restore':
                r = call(s.restore, a[1], tid, a[2], '', a[3], t)
            elif a[0] == 'undo':
                r = call(s.undo, encodebytes(a[1]).rstrip(), t)
            elif a[0] == 'undo-try':
                r = call(s.undo, encodebytes(a[1]).rstrip(), t)
                if r == Exc('UndoError'):
                    continue            # caught by the client
                call(s.tpc_abort, t)
                self.bad('step', 'undo:UndoError->%s' % (
                    r.name if isinstance(r, Exc) else 'ok'),
                    dict(action=a[0], got=repr(r)))
                return 'error'
            exp_fail = plan[0] == i
            if isinstance(r, Exc):
                ra = call(s.tpc_abort, t)
                if isinstance(ra, Exc):
                    self.bad('step', 'tpc_abort:%s' % ra.name,
                             dict(got=repr(ra)))
                if not exp_fail or plan[1] != r:
                    self.bad('step', '%s:%s->%s' % (
                        a[0], plan[1].name if exp_fail else 'ok', r.name),
                        dict(action=a[0], expected=repr(plan), got=repr(r)))
                    return 'error'
                return {'ConflictError': 'conflict',
                        'UndoError': 'undo-refused'}.get(r.name, r.name)
            elif exp_fail:
                call(s.tpc_abort, t)
                self.bad('step', '%s:%s->ok' % (a[0], plan[1].name),
                         dict(action=a[0], expected=repr(plan), got='ok'))
                return 'error'
        if abort == 'store':
            r = call(s.tpc_abort, t)
            if isinstance(r, Exc):
                self.bad('step', 'tpc_abort:%s' % r.name, dict(got=repr(r)))
            return 'abort1'
        if self.record:
            iolog.LOG.mark('vote', len(m.txns))
        r = call(s.tpc_vote, t)
        if isinstance(r, Exc):
            call(s.tpc_abort, t)
            self.bad('step', 'tpc_vote:%s' % r.name, dict(got=repr(r)))
            return 'error'
        _, recs, resolved = plan
        if hclasses.RESOLVE_LOG != self.expected_merges:
            self.bad('resolver', 'arguments',
                     dict(expected=self.expected_merges,
                          got=list(hclasses.RESOLVE_LOG)))
        if self.flavor == 'F' and not any(a[0] == 'undo' for a in actions):
            if sorted(r or ()) != sorted(resolved):
                self.bad('step', 'vote-resolved',
                         dict(expected=resolved, got=r))
        if abort == 'vote':
            # voted, not finished: no view may show the transaction yet
            # (it may still be aborted - as it is now)
            it = call(lambda: [x.tid for x in s.iterator()])
            want = [x.tid for x in m.txns]
            if self.packed:
                # (the list model does not follow a pack)
                want = it if not isinstance(it, Exc) and set(it) <= set(
                    want) else want
            if it != want:
                self.bad('iter', 'voted-transaction-listed',
                         dict(expected=len(want), got=repr(it)[:200]))
            lt = call(s.lastTransaction)
            if not self.packed and lt != (want[-1] if want else Z64):
                self.bad('iter', 'voted-transaction-is-last',
                         dict(got=repr(lt)))
            r = call(s.tpc_abort, t)
            if isinstance(r, Exc):
                self.bad('step', 'tpc_abort:%s' % r.name, dict(got=repr(r)))
            return 'abort2'
        if self.record:
            iolog.LOG.mark('finish', len(m.txns))
        seen = []
        r = call(s.tpc_finish, t, seen.append)
        if isinstance(r, Exc):
            self.bad('step', 'tpc_finish:%s' % r.name, dict(got=repr(r)))
            return 'error'
        if self.record:
            iolog.LOG.mark('finished', len(m.txns))
        rtid = r
        if seen != [rtid]:
            self.bad('step', 'finish-callback', dict(seen=seen, tid=rtid))
        if tid is not None and rtid != tid:
            self.bad('tids', 'explicit-tid', dict(asked=tid, got=rtid))
        if not (isinstance(rtid, bytes) and len(rtid) == 8
                and rtid > before_last):
            self.bad('tids', 'not-increasing',
                     dict(last=before_last, new=rtid))
            if not isinstance(rtid, bytes):
                return 'error'
        # adopt bytes of merged records after checking their meaning (the
        # records of this transaction, in order, from the iterator: with two
        # records for one oid only the last is reachable by oid)
        stored = None
        if any(rec.kind == 'data' and isinstance(rec.data, tuple)
               for rec in recs):
            it = s.iterator(rtid, rtid)
            try:
                stored = [r.data for t2 in it for r in t2]
            finally:
                getattr(it, 'close', lambda: None)()
            if self.flavor != 'F':
                stored = None
        for i, rec in enumerate(recs):
            if rec.kind == 'data' and isinstance(rec.data, tuple):
                if stored is not None and len(stored) == len(recs):
                    got = stored[i]
                else:
                    got = call(s.loadSerial, rec.oid, rtid)
                dec = None if isinstance(got, Exc) or got is None \
                    else hclasses.decode(got)
                if dec != rec.data[1:]:
                    self.bad('step', 'merged-state',
                             dict(expected=rec.data, got=repr(dec)))
                    return 'error'
                rec.data = got
        m.commit(Txn(rtid, t.user, t.description, dict(t.extension), recs,
                     status))
        if resolved:
            return 'resolved'
        if any(a[0] == 'undo-try' for a in actions):
            return 'undo-refused-commit'
        if any(a[0] == 'undo' for a in actions):
            return 'undo-ok'
        return 'commit'


def build(kind, history, spec, **kw):
    """Fresh world with history replayed (no oracle beyond step checks)."""
    env.reset_globals()
    w = World(kind, **kw)
    for op in history:
        w.apply(tuple(op), spec)
    return w
