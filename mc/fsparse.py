"""Independent parser / structure checker for the Data.fs format.

Written from the format description (FileStorage/format.py docstring), not
from the reading code, and used as a second opinion on structure.
"""
import struct

MAGIC = b'FS30'
THDR = struct.Struct('>8sQcHHH')      # tid, tlen, status, ulen, dlen, elen
DHDR = struct.Struct('>8s8sQQHQ')     # oid, tid, prev, tloc, vlen, plen


class FormatError(Exception):
    pass


class PTxn:
    __slots__ = ('pos', 'tid', 'status', 'user', 'desc', 'ext', 'recs',
                 'tlen')


class PRec:
    __slots__ = ('pos', 'oid', 'tid', 'prev', 'tloc', 'plen', 'back', 'data')


def parse(data, strict=True, check_rec_tid=True):
    """List of PTxn.  Raises FormatError on any structural problem.
    strict: also require prev pointers to name the previous record of the
    same oid in this file and back pointers to name a record of the oid."""
    if data[:4] != MAGIC:
        raise FormatError('bad magic %r' % data[:4])
    pos = 4
    n = len(data)
    txns = []
    last_tid = b''
    rec_at = {}           # pos -> PRec
    last_pos = {}         # oid -> pos of latest record
    prev_txn_pos = {}     # oid -> pos of latest record in an earlier txn
    while pos < n:
        if pos + THDR.size > n:
            raise FormatError('truncated transaction header at %d' % pos)
        tid, tlen, status, ul, dl, el = THDR.unpack_from(data, pos)
        status = status.decode('latin1')
        if status not in ' pu':
            raise FormatError('bad status %r at %d' % (status, pos))
        if tid <= last_tid:
            raise FormatError('tid not increasing at %d' % pos)
        last_tid = tid
        hl = THDR.size + ul + dl + el
        if tlen < hl:
            raise FormatError('tlen %d < header %d at %d' % (tlen, hl, pos))
        tend = pos + tlen
        if tend + 8 > n:
            raise FormatError('transaction at %d exceeds file' % pos)
        t = PTxn()
        t.pos, t.tid, t.status, t.tlen = pos, tid, status, tlen
        q = pos + THDR.size
        t.user = data[q:q + ul]
        t.desc = data[q + ul:q + ul + dl]
        t.ext = data[q + ul + dl:q + ul + dl + el]
        t.recs = []
        q = pos + hl
        while q < tend:
            if q + DHDR.size > tend:
                raise FormatError('truncated data header at %d' % q)
            oid, rtid, prev, tloc, vlen, plen = DHDR.unpack_from(data, q)
            r = PRec()
            r.pos, r.oid, r.tid, r.prev, r.tloc, r.plen = \
                q, oid, rtid, prev, tloc, plen
            if vlen:
                raise FormatError('version length at %d' % q)
            if tloc != pos:
                raise FormatError('tloc %d != %d at %d' % (tloc, pos, q))
            if check_rec_tid and status != 'u' and rtid != tid:
                raise FormatError('record tid != txn tid at %d' % q)
            body = q + DHDR.size
            if plen:
                if body + plen > tend:
                    raise FormatError('data exceeds transaction at %d' % q)
                r.data = data[body:body + plen]
                r.back = 0
                nxt = body + plen
            else:
                if body + 8 > tend:
                    raise FormatError('back pointer exceeds txn at %d' % q)
                r.back = struct.unpack_from('>Q', data, body)[0]
                r.data = None
                nxt = body + 8
            if strict:
                if prev != last_pos.get(oid, 0) and \
                        prev != prev_txn_pos.get(oid, 0) and \
                        not (status == 'p' and prev == 0):
                    # (a pack keeps revisions of the packed region without
                    # chaining them: prev is 0 there)
                    raise FormatError(
                        'prev pointer %d != previous record %d of oid at %d'
                        % (prev, last_pos.get(oid, 0), q))
                if r.back:
                    b = rec_at.get(r.back)
                    if b is None or b.oid != oid or r.back >= q:
                        raise FormatError('bad back pointer %d at %d'
                                          % (r.back, q))
            rec_at[q] = r
            last_pos[oid] = q
            t.recs.append(r)
            q = nxt
        if q != tend:
            raise FormatError('records do not tile transaction at %d' % pos)
        rl = struct.unpack_from('>Q', data, tend)[0]
        if rl != tlen:
            raise FormatError('redundant length %d != %d at %d'
                              % (rl, tlen, tend))
        for r in t.recs:
            prev_txn_pos[r.oid] = last_pos[r.oid]
        txns.append(t)
        pos = tend + 8
    if pos != n:
        raise FormatError('trailing bytes')
    return txns


def resolve(rec, rec_at):
    while rec is not None and rec.data is None:
        if not rec.back:
            return None
        rec = rec_at.get(rec.back)
    return rec.data if rec is not None else None


def check_against_model(data, model):
    """Record-for-record agreement of the file with the model; returns None
    or a short description of the first difference."""
    try:
        txns = parse(data)
    except FormatError as e:
        return 'format: %s' % e
    txns = [t for t in txns if t.status != 'u']
    if len(txns) != len(model.txns):
        return 'transactions: file %d model %d' % (len(txns),
                                                   len(model.txns))
    rec_at = {r.pos: r for t in txns for r in t.recs}
    for ft, mt in zip(txns, model.txns):
        if (ft.tid, ft.status, ft.user, ft.desc) != (
                mt.tid, mt.status, mt.user, mt.desc):
            return 'transaction header differs at %d' % ft.pos
        if len(ft.recs) != len(mt.recs):
            return 'record count differs at %d' % ft.pos
        for fr, mr in zip(ft.recs, mt.recs):
            if fr.oid != mr.oid:
                return 'oid differs at %d' % fr.pos
            if resolve(fr, rec_at) != mr.resolve():
                return 'data differs at %d' % fr.pos
    return None


def committed_end(data):
    """Offset just after the last complete transaction that is not still
    flagged as being committed ('c'): a walk over the transaction headers
    and their redundant lengths only."""
    if data[:4] != MAGIC:
        return 0
    pos = 4
    n = len(data)
    while pos + THDR.size <= n:
        tid, tlen, status, ul, dl, el = THDR.unpack_from(data, pos)
        if status == b'c' or tlen < THDR.size + ul + dl + el:
            break
        tend = pos + tlen
        if tend + 8 > n or struct.unpack_from('>Q', data, tend)[0] != tlen:
            break
        pos = tend + 8
    return pos
