"""A real ZODB.DB over a fresh storage, plus an interpreter for small
per-connection programs whose steps log what they observe.  Used by the
schedule-exploring checks (C02, C03, C08) and by sequential interleavings.
"""
import io
import os
import pickle

import transaction

from . import env, hclasses, iolog
from .battery import p64

NAMES = ('x', 'y', 'z')

_hash_counter = [0]
_hash_patched = [False]


def own_hash_order():
    """MVCCAdapter keeps its instances in a set; their default hash is the
    address, so iteration order (and with it the order of lock operations in
    _invalidate_finish) would differ between runs.  Give instances a
    creation-order hash: the harness owns this source of nondeterminism."""
    _hash_counter[0] = 0
    if _hash_patched[0]:
        return
    _hash_patched[0] = True
    for modname, clsname in (('ZODB.mvccadapter', 'MVCCAdapterInstance'),
                             ('ZODB.Connection', 'Connection')):
        cls = getattr(env.mod(modname), clsname)
        orig = cls.__init__

        def __init__(self, *a, _orig=orig, **k):
            _hash_counter[0] += 1
            self._verif_hash = _hash_counter[0]
            _orig(self, *a, **k)

        cls.__init__ = __init__
        cls.__hash__ = lambda self: self._verif_hash


class DBWorld:
    def __init__(self, kind='F', names=('x', 'y'), cls='P', record=True,
                 pool_size=7, bufsize=8192, merge_names=()):
        env.reset_globals()
        own_hash_order()
        self.kind = kind
        self.dir = env.new_dir('db')
        self.path = os.path.join(self.dir, 'Data.fs')
        if record:
            iolog.install()
            iolog.LOG.reset(self.dir, bufsize)
            iolog.LOG.recording = True
        self.record = record
        DB = env.mod('ZODB.DB').DB
        self.names = names
        self.events = []
        self.vcount = 100
        self.oids = {}
        if kind in ('DMM', 'DFM'):
            # the initial objects live in the BASE layer: commit them through
            # a DB on the base, then layer the demo storage over it
            FS = env.mod('ZODB.FileStorage.FileStorage').FileStorage
            MS = env.mod('ZODB.MappingStorage').MappingStorage
            DS = env.mod('ZODB.DemoStorage').DemoStorage
            self.base = FS(self.path) if kind == 'DFM' else MS('base')
            setup_db = DB(self.base, pool_size=pool_size)
            self.storage = DS(base=self.base, changes=MS('changes'))
        else:
            self.storage = self._mkstorage(kind)
            setup_db = DB(self.storage, pool_size=pool_size)
        tm = transaction.TransactionManager()
        c = setup_db.open(tm)
        root = c.root()
        C = getattr(hclasses, cls)
        for n in names:
            o = C()
            o.v = 0
            o.base = None
            root[n] = o
        # objects of a class that merges concurrent changes (a bit set)
        self.merge_names = tuple(merge_names)
        for n in merge_names:
            o = hclasses.CR()
            o.mode = 'merge'
            o.v = 0
            o.refs = []
            root[n] = o
        env.CLOCK.now += 1
        tm.commit()
        for n in tuple(names) + tuple(merge_names):
            self.oids[n] = root[n]._p_oid
        self.setup_tid = root[names[0]]._p_serial
        c.close()
        env.CLOCK.now += 1
        if kind in ('DMM', 'DFM'):
            self.db = DB(self.storage, pool_size=pool_size)
        else:
            self.db = setup_db

    def _mkstorage(self, kind):
        FS = env.mod('ZODB.FileStorage.FileStorage').FileStorage
        MS = env.mod('ZODB.MappingStorage').MappingStorage
        DS = env.mod('ZODB.DemoStorage').DemoStorage
        if kind == 'F':
            return FS(self.path)
        if kind == 'Fb':
            return FS(self.path, blob_dir=os.path.join(self.dir, 'blobs'))
        if kind == 'M':
            return MS()
        if kind == 'DMM':
            return DS(base=MS('base'), changes=MS('changes'))
        if kind == 'DFM':
            return DS(base=FS(self.path), changes=MS('changes'))
        raise ValueError(kind)

    def close(self):
        try:
            self.db.close()
        except Exception:
            pass
        if self.record:
            iolog.LOG.recording = False
            iolog.LOG.point_hook = None
            iolog.LOG.read_hook = None
        env.rm_dir(self.dir)

    def newval(self):
        self.vcount += 1
        return self.vcount

    def log(self, *ev):
        self.events.append(ev)

    # -- final history, straight from the storage -------------------------
    def revisions(self):
        """{oid: [(tid, state dict)]} oldest first, from the iterator."""
        revs = {}
        it = self.storage.iterator()
        try:
            for t in it:
                for r in t:
                    if r.data is None:
                        continue
                    revs.setdefault(r.oid, []).append(
                        (r.tid, decode_state(r.data)))
        finally:
            close = getattr(it, 'close', None)
            if close:
                close()
        return revs


def decode_state(data):
    f = io.BytesIO(data)
    u = pickle.Unpickler(f)     # one unpickler: the memo is shared
    u.persistent_load = lambda pid: ('ref', pid)
    u.load()
    return u.load()


class Prog:
    """Interpreter of one thread's program.  Steps:
    ('open',) ('close',) ('begin',) ('r', name) ('w', name) ('rc', name)
    ('commit',) ('abort',) ('sync',) ('pack', t) ('undo',)
    Every step logs to world.events; exceptions of commit are outcomes."""

    def __init__(self, world, tid, steps):
        self.w = world
        self.tid = tid
        self.steps = steps
        self.conn = None
        self.tm = None
        self.txn = 0
        self.ninc = 0

    def boundary(self, what):
        self.txn += 1
        self.w.log('boundary', self.tid, self.txn, what)

    def obj(self, name):
        return self.conn.root()[name]

    def run(self, sched=None, cthread=None):
        for st in self.steps:
            self.step(st)

    def step(self, st):
        w = self.w
        k = st[0]
        if k == 'open':
            self.tm = transaction.TransactionManager()
            self.boundary('open')
            self.conn = w.db.open(self.tm)
        elif k == 'close':
            self.conn.close()
            self.conn = None
        elif k == 'begin':
            self.boundary('begin')
            self.tm.begin()
        elif k == 'sync':
            self.boundary('sync')
            self.conn.sync()
        elif k == 'r':
            try:
                o = self.obj(st[1])
                v = o.v
                w.log('read', self.tid, self.txn, st[1], o._p_serial, v,
                      bool(o._p_changed))
            except Exception as e:      # noqa: B902
                w.log('read-error', self.tid, self.txn, st[1],
                      type(e).__name__, isinstance(
                          e, env.mod('ZODB.POSException').ConflictError))
        elif k == 'w':
            try:
                o = self.obj(st[1])
                o._p_activate()
                base = o._p_serial if not o._p_changed else o.base
                o.base = base
                o.v = w.newval()
                w.log('write', self.tid, self.txn, st[1], base, o.v)
                if getattr(self, 'since_sp', None) is not None:
                    self.since_sp.append(st[1])
            except Exception as e:      # noqa: B902
                w.log('write-error', self.tid, self.txn, st[1],
                      type(e).__name__)
        elif k == 'inc':
            # add a bit nobody else uses to an object whose class merges
            try:
                o = self.obj(st[1])
                o._p_activate()
                amount = 1 << (4 * self.tid + self.ninc)
                self.ninc += 1
                serial = o._p_serial
                o.v = o.v + amount
                w.log('inc', self.tid, self.txn, st[1], amount, serial)
            except Exception as e:      # noqa: B902
                w.log('write-error', self.tid, self.txn, st[1],
                      type(e).__name__)
        elif k in ('rc', 'rcg'):
            try:
                o = self.obj(st[1])
                if k == 'rc':
                    o._p_activate()
                # ('rcg': the dependency is declared before the object is
                # looked at for the first time - it may still be a ghost)
                self.conn.readCurrent(o)
                o._p_activate()
                w.log('readcurrent', self.tid, self.txn, st[1], o._p_serial)
            except Exception as e:      # noqa: B902
                w.log('read-error', self.tid, self.txn, st[1],
                      type(e).__name__, True)
        elif k == 'commit':
            old = self.txn
            self.boundary('commit')     # the commit ends with a boundary
            w.log('commit-start', self.tid, old)
            try:
                self.tm.commit()
                w.log('commit-done', self.tid, old)
            except Exception as e:      # noqa: B902
                CE = env.mod('ZODB.POSException').ConflictError
                w.log('commit-failed', self.tid, old, type(e).__name__,
                      isinstance(e, CE))
                self.boundary('abort-after-failed-commit')
                self.tm.abort()
        elif k == 'abort':
            self.boundary('abort')
            self.tm.abort()
        elif k == 'commit-vote-fail':
            # another participant votes no after the storage has voted
            from .connworld import FailingRM
            old = self.txn
            self.boundary('failed-commit')
            self.tm.get().join(FailingRM('vote'))
            try:
                self.tm.commit()
                w.log('commit-done', self.tid, old)
            except RuntimeError:
                w.log('commit-vetoed', self.tid, old)
                self.tm.abort()
        elif k == 'hist':
            # the revision list of one object, as an administrator's tool
            # asks for it (any thread may, at any time)
            try:
                o = self.obj(st[1])
                h = w.db.history(o._p_oid, 10)
                w.log('history', self.tid, self.txn, st[1],
                      tuple((d['tid'], d['user_name'], d['description'])
                            for d in h))
            except Exception as e:      # noqa: B902
                w.log('read-error', self.tid, self.txn, st[1],
                      'history:' + type(e).__name__, False)
        elif k == 'reset':
            # ZODB.Connection.resetCaches(): every connection drops its
            # object cache when it is opened next
            env.mod('ZODB.Connection').resetCaches()
        elif k == 'sp':
            self.tm.savepoint()
        elif k == 'spk':
            # a savepoint whose handle is kept for a later rollback
            self.sp = self.tm.savepoint()
            self.since_sp = []
        elif k == 'rb':
            self.sp.rollback()
            w.log('rollback', self.tid, self.txn, tuple(self.since_sp))
            self.since_sp = []
        elif k == 'pack':
            from ZODB.serialize import referencesf
            w.log('pack-start', self.tid)
            try:
                w.db.pack(st[1])
                w.log('pack-done', self.tid)
            except Exception as e:      # noqa: B902
                w.log('pack-failed', self.tid, type(e).__name__, str(e)[:80])
        else:
            raise ValueError(st)
