"""The query battery: every revision query the storage API offers, asked of a
real storage (observe) and of the reference model (expect), then compared."""
from . import refmodel
from .refmodel import Exc, MAXTID, Z64, matches


def p64(n):
    return n.to_bytes(8, 'big')


def u64(b):
    return int.from_bytes(b, 'big')


ABSENT_OID = p64(0x7777)

_EXC_CATS = None


def _cats():
    global _EXC_CATS
    if _EXC_CATS is None:
        from ZODB import POSException as E
        _EXC_CATS = [
            (E.POSKeyError, 'POSKeyError'),
            (E.ReadConflictError, 'ReadConflictError'),
            (E.ConflictError, 'ConflictError'),
            (E.UndoError, 'UndoError'),
            (E.ReadOnlyError, 'ReadOnlyError'),
            (E.StorageTransactionError, 'StorageTransactionError'),
        ]
    return _EXC_CATS


def norm_exc(e):
    for cls, name in _cats():
        if isinstance(e, cls):
            return Exc(name)
    return Exc(type(e).__name__)


def call(f, *a, **k):
    try:
        return f(*a, **k)
    except Exception as e:      # noqa: B902
        return norm_exc(e)


def boundaries(tids):
    b = {Z64, p64(1), MAXTID}
    for t in tids:
        n = u64(t)
        b.update((p64(n - 1), t, p64(n + 1)))
    return sorted(b)


def _norm_hist(h, flavor):
    if isinstance(h, Exc):
        return h
    out = []
    for d in h:
        d = dict(d)
        e = {k: v for k, v in d.items()
             if k not in ('time', 'serial', 'extension')}
        out.append(e)
    return out


def _norm_undolog(l):
    if isinstance(l, Exc):
        return l
    out = []
    for d in l:
        out.append({k: v for k, v in d.items() if k not in ('time', 'size')})
    return out


def _iter(storage, start, stop):
    """Normalised iterator output: list of
    (tid, status, user, desc, extdict, [(oid, tid, data, data_txn)])."""
    out = []
    it = storage.iterator(start, stop)
    try:
        for t in it:
            recs = [(r.oid, r.tid, r.data, getattr(r, 'data_txn', None))
                    for r in t]
            ext = t.extension
            out.append((t.tid, t.status, t.user, t.description, dict(ext),
                        recs))
    finally:
        close = getattr(it, 'close', None)
        if close is not None:
            close()
    return out


def iter_queries(tids, level):
    """(start, stop) pairs asked of iterator()."""
    qs = [(None, None)]
    if level <= 0:
        return qs
    bs = boundaries(tids)
    if level == 1:
        # every boundary as start, every boundary as stop
        qs += [(b, None) for b in bs] + [(None, b) for b in bs]
        qs += [(a, b) for i, a in enumerate(tids) for b in tids[i:]]
    else:
        qs += [(a, b) for a in bs for b in bs]
    return qs


def observe(storage, oids, tids, flavor='F', iter_level=1, undo=True):
    """All answers of the real storage, normalised, as {query: answer}."""
    obs = {}
    oids = list(oids) + [ABSENT_OID]
    bs = boundaries(tids)
    obs[('lastTransaction',)] = call(storage.lastTransaction)
    obs[('len',)] = call(len, storage)
    for o in oids:
        obs[('load', o)] = call(storage.load, o)
        obs[('getTid', o)] = call(storage.getTid, o)
        for b in bs:
            obs[('loadBefore', o, b)] = call(storage.loadBefore, o, b)
        for t in tids:
            obs[('loadSerial', o, t)] = call(storage.loadSerial, o, t)
        obs[('loadSerial', o, p64(2))] = call(storage.loadSerial, o, p64(2))
        for size in (1, 2, 99):
            obs[('history', o, size)] = _norm_hist(
                call(storage.history, o, size), flavor)
    if undo and flavor == 'F':
        obs[('undoLog',)] = _norm_undolog(call(storage.undoLog, 0, 99))
        obs[('undoInfo',)] = _norm_undolog(call(storage.undoInfo, 0, 99))
        obs[('undoLog', 1, 3)] = _norm_undolog(call(storage.undoLog, 1, 3))
    for q in iter_queries(tids, iter_level):
        obs[('iterator',) + q] = call(_iter, storage, *q)
    if flavor == 'F' and hasattr(storage, 'record_iternext'):
        chain, nxt, n = [], None, 0
        while n < 50:
            n += 1
            r = call(storage.record_iternext, nxt)
            if isinstance(r, Exc):
                chain.append(r)
                break
            chain.append(r[:3])
            nxt = r[3]
            if nxt is None:
                break
        obs[('record_iternext',)] = chain
    return obs


def expect(model, oids=None, tids=None, iter_level=1, undo=True):
    exp = {}
    flavor = model.flavor
    oids = list(model.oids() if oids is None else oids) + [ABSENT_OID]
    tids = model.tids() if tids is None else tids
    bs = boundaries(tids)
    exp[('lastTransaction',)] = model.last_tid()
    exp[('len',)] = len(model.oids())
    for o in oids:
        exp[('load', o)] = model.load(o)
        exp[('getTid', o)] = model.getTid(o)
        for b in bs:
            exp[('loadBefore', o, b)] = model.loadBefore(o, b)
        for t in tids:
            exp[('loadSerial', o, t)] = model.loadSerial(o, t)
        exp[('loadSerial', o, p64(2))] = model.loadSerial(o, p64(2))
        for size in (1, 2, 99):
            exp[('history', o, size)] = model.history(o, size)
    if undo and flavor == 'F':
        ul = model.undoLog()
        exp[('undoLog',)] = ul
        exp[('undoInfo',)] = ul
        exp[('undoLog', 1, 3)] = ul[1:3]
    for q in iter_queries(tids, iter_level):
        exp[('iterator',) + q] = model.iterate(*q)
    if flavor == 'F':
        oids_all = model.oids()
        if oids_all and all(model.live(o) for o in oids_all):
            exp[('record_iternext',)] = [
                (o,) + tuple(reversed(model.load(o))) for o in oids_all]
        elif not oids_all:
            exp[('record_iternext',)] = None      # not compared
        else:
            exp[('record_iternext',)] = None
    return exp


def _kind(v):
    if isinstance(v, Exc):
        return v.name
    if isinstance(v, refmodel.AnyOf):
        return 'anyof'
    if v is None:
        return 'None'
    return 'value'


def compare(exp, obs, model=None):
    """List of (query, expected, got) mismatches.  Compares strictly what the
    model defines; iterator data_txn is validated, not compared."""
    bad = []
    for q, e in exp.items():
        if q not in obs:
            continue
        g = obs[q]
        if q[0] == 'iterator':
            if isinstance(g, Exc) or not _iter_match(e, g, model):
                bad.append((q, e, g))
            continue
        if q[0] == 'record_iternext':
            if e is None:
                continue
            if g != e:
                bad.append((q, e, g))
            continue
        if q[0] == 'history' and not isinstance(e, Exc) \
                and not isinstance(g, Exc):
            if not _hist_match(e, g, model):
                bad.append((q, e, g))
            continue
        if q[0] == 'len':
            continue    # len() is "approximate" per IStorage; informational
        if q[0] in ('undoLog', 'undoInfo'):
            if e is None:
                continue
            if isinstance(g, Exc) or not _undo_match(e, g):
                bad.append((q, e, g))
            continue
        if not matches(e, g):
            bad.append((q, e, g))
    return bad


def _undo_match(e, g):
    """Every transaction is listed, newest first, with its metadata (also
    one without records)."""
    g = list(g)
    if len(g) != len(e):
        return False
    for d, got in zip(e, g):
        want = {k: v for k, v in d.items() if k not in ('_n', '_dup')}
        if got != want:
            return False
    return True


def _hist_match(e, g, model):
    if len(e) != len(g):
        return False
    for a, b in zip(e, g):
        for k, v in a.items():
            if k == 'size':
                # size is only defined for records that hold their own data
                if v and b.get(k) != v:
                    return False
                continue
            if k not in b and model is not None and model.flavor != 'F' \
                    and k not in ('tid', 'user_name', 'description'):
                continue
            if b.get(k) != v:
                return False
    return True


def _iter_match(e, g, model):
    if len(e) != len(g):
        return False
    for (tid, st, u, d, ext, recs), (tid2, st2, u2, d2, ext2, recs2) in \
            zip(e, g):
        if (tid, st, u, d, ext) != (tid2, st2, u2, d2, ext2):
            return False
        if len(recs) != len(recs2):
            return False
        if model is not None and model.flavor != 'F':
            recs = sorted(recs)
            recs2 = sorted(recs2, key=lambda r: r[:2])
        for (o, t, data), (o2, t2, data2, dtxn) in zip(recs, recs2):
            if (o, t, data) != (o2, t2, data2):
                return False
            if model is not None and not model.data_txn_ok(o, t, data, dtxn):
                return False
    return True


def sig_of(clause, q, e, g):
    return '%s:%s:%s->%s' % (clause, q[0], _kind(e), _kind(g))
