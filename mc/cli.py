"""CLI: python -m mc.cli <ID> [--tier quick|thorough] [--replay file]"""
import argparse
import importlib
import json
import os
import sys
import traceback

from . import env, evidence

MODULES = {
    'C01': 'c01_crash', 'C02': 'c02_snapshot', 'C03': 'c03_lostupdate',
    'C04': 'c04_history', 'C05': 'c05_abort', 'C06': 'c06_undo',
    'C07': 'c07_pack', 'C08': 'c08_packconc', 'C09': 'c09_index',
    'C10': 'c10_resolve', 'C11': 'c11_objects', 'C12': 'c12_savepoint',
    'C13': 'c13_blob', 'C14': 'c14_graphs', 'C15': 'c15_historical',
    'C16': 'c16_demo', 'C17': 'c17_copy', 'C18': 'c18_repozo',
    'C19': 'c19_fsindex', 'C20': 'c20_oids',
}


def main(argv=None):
    ap = argparse.ArgumentParser()
    ap.add_argument('prop')
    ap.add_argument('--tier', default=os.environ.get('VERIF_TIER', 'quick'),
                    choices=['quick', 'thorough'])
    ap.add_argument('--replay')
    ap.add_argument('--workers', type=int,
                    default=int(os.environ.get('VERIF_WORKERS', '16')))
    a = ap.parse_args(argv)
    seed = int(os.environ.get('VERIF_SEED', '0') or 0)
    os.chdir(evidence.VERIF)
    env.sweep_stale()
    env.install()
    env.scratch_base()
    m = importlib.import_module('checks.' + MODULES[a.prop])
    if a.replay:
        with open(a.replay) as f:
            w = json.load(f)
        ok = m.replay(w)
        print('replay: %s' % ('property holds on this witness' if ok
                              else 'VIOLATION reproduced'))
        return 0 if ok else 1
    rep = evidence.Reporter(a.prop, a.tier, seed)
    try:
        m.run(rep, a.tier, seed, a.workers)
    except Exception:
        traceback.print_exc()
        print('HARNESS-ERROR property=%s' % a.prop)
        return 2
    return rep.finish()


if __name__ == '__main__':
    sys.exit(main())
