"""Parallel driver for preemption-bounded schedule exploration.

A check module provides
    run_one(cfg, choices) -> (Scheduler after run, world)   fresh objects
    judge(cfg, sched, world) -> (outcome_key, [(clause, sig, detail)])
    cleanup(world)
The root execution is expanded in the master; each child prefix is a task
whose whole subtree one worker explores.
"""
import importlib

from . import env, par, sched


def _exec(mod, cfg, choices, res, check_replay=True):
    s, w = mod.run_one(cfg, choices)
    try:
        key, viol = mod.judge(cfg, s, w)
        if s.verdict in ('deadlock', 'livelock', 'timeout', 'stuck-thread'):
            viol = list(viol) + [(
                'deadlock' if s.verdict == 'deadlock' else 'livelock',
                '%s:%s' % (cfg['name'], s.verdict),
                dict(verdict=s.verdict, blocked=s.blocked_info,
                     steps=s.steps))]
    finally:
        mod.cleanup(w)
    res['cov']['traces_validated_against_impl'] += 1
    res['cov']['transitions'] += s.steps
    res['cov']['evaluations'] += 1
    res['outcomes'][key] = res['outcomes'].get(key, 0) + 1
    used = [p.choice for p in s.points]
    if viol and check_replay:
        # replay the recorded schedule; observations must be identical
        s2, w2 = mod.run_one(cfg, used)
        try:
            key2, viol2 = mod.judge(cfg, s2, w2)
        finally:
            mod.cleanup(w2)
        if key2 != key or [v[:2] for v in viol2] != [v[:2] for v in viol
                                                     if v[0] not in (
                'deadlock', 'livelock')]:
            if not any(v[0] in ('deadlock', 'livelock') for v in viol):
                raise RuntimeError(
                    'nondeterministic replay of schedule %r for %r: %r vs %r'
                    % (used, cfg, (key, viol), (key2, viol2)))
    for c, sg, d in viol:
        full = '%s.%s' % (cfg['prop'], c)
        fsig = '%s:%s' % (full, sg)
        for i, v in enumerate(res['violations']):
            if v[1] == fsig:
                res['violations'][i] = v[:4] + (v[4] + 1,)
                break
        else:
            res['violations'].append(
                (full, fsig, dict(cfg=cfg, choices=used), d, 1))
    return s


def _new_res():
    return dict(cov=dict(states=0, transitions=0, evaluations=0,
                         traces_validated_against_impl=0,
                         distinct_nontrivial=0),
                outcomes={}, violations=[], samples=[], caps=[])


def subtree(modname, cfg, prefix, bound, max_execs=None):
    env.install()
    mod = importlib.import_module(modname)
    res = _new_res()
    st = sched.explore(lambda ch: _exec(mod, cfg, ch, res), bound,
                       root=prefix, max_execs=max_execs)
    res['cov']['states'] += st['decisions']
    if st['capped']:
        res['caps'].append('%s: subtree capped at %d executions'
                           % (cfg['name'], max_execs))
    return res


def explore(rep, modname, cfg, bound, workers, seed, max_execs=None):
    mod = importlib.import_module(modname)
    res = _new_res()
    st = sched.explore(lambda ch: _exec(mod, cfg, ch, res), bound,
                       expand_only=True)
    res['cov']['states'] += st['decisions']
    children = st['children']
    if len(res['samples']) < 1:
        res['samples'].append(dict(harness=cfg['name'], bound=bound,
                                   root_decisions=st['max_points'],
                                   first_level_children=len(children)))
    rep.merge_counts(res)
    per = None
    if max_execs is not None:
        per = max(1, max_execs // max(1, len(children)))
    tasks = [('mc.schedx', 'subtree', (modname, cfg, c, bound, per))
             for c in children]
    par.run_tasks(tasks, workers, rep, seed)
    return st


def explore_many(rep, modname, plan, workers, seed, levels=2):
    """plan: list of (cfg, bound).  Roots (and one more level) are expanded
    here; all subtrees of all harnesses share one pool."""
    mod = importlib.import_module(modname)
    tasks = []
    for cfg, bound in plan:
        res = _new_res()
        frontier = [[]]
        for lvl in range(levels):
            nxt = []
            for prefix in frontier:
                st = sched.explore(lambda ch: _exec(mod, cfg, ch, res), bound,
                                   root=prefix, expand_only=True)
                res['cov']['states'] += st['decisions']
                nxt += st['children']
            frontier = nxt
            if len(frontier) >= 8 * workers:
                break
        res['samples'].append(dict(harness=cfg['name'], kind=cfg.get('kind'),
                                   lines=cfg.get('lines'), bound=bound,
                                   subtrees=len(frontier)))
        rep.merge_counts(res)
        tasks += [('mc.schedx', 'subtree', (modname, cfg, c, bound, None))
                  for c in frontier]
    par.run_tasks(tasks, workers, rep, seed)


def replay(modname, witness):
    env.install()
    mod = importlib.import_module(modname)
    cfg = witness['cfg']
    res = _new_res()
    s = _exec(mod, cfg, witness['choices'], res, check_replay=False)
    print('schedule: %d decisions, %d steps, verdict=%s' % (
        len(s.points), s.steps, s.verdict))
    for p in s.points:
        print('  thread %d at %-8s enabled=%d choice=%d' % (
            p.tid, p.kind, p.enabled, p.choice))
    return res['violations']
