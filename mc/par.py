"""Long-lived worker pool.  Tasks are (module, function, args) triples; the
function returns a partial-result dict that Reporter.merge_counts accepts."""
import importlib
import multiprocessing as mp
import os
import random
import traceback

from . import env


def _init():
    env.install()


def _call(task):
    modname, fname, args = task
    try:
        m = importlib.import_module(modname)
        return getattr(m, fname)(*args)
    except BaseException:
        return {'error': traceback.format_exc(), 'task': repr(task)[:500]}


def run_tasks(tasks, workers, rep, seed=0, chunksize=1):
    """Run all tasks; merge results into rep.  Order of execution is permuted
    by seed; the set of tasks (coverage) does not depend on it."""
    tasks = list(tasks)
    random.Random(seed).shuffle(tasks)
    if workers <= 1 or len(tasks) <= 1:
        env.install()
        results = map(_call, tasks)
        for r in results:
            _merge(rep, r)
        return
    ctx = mp.get_context('fork')
    with ctx.Pool(min(workers, len(tasks)), initializer=_init) as pool:
        for r in pool.imap_unordered(_call, tasks, chunksize):
            _merge(rep, r)


def _merge(rep, r):
    if r is None:
        return
    if 'error' in r:
        raise RuntimeError('worker failed: %s\n%s' % (r['task'], r['error']))
    rep.merge_counts(r)
