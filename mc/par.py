"""Long-lived worker pool.  Tasks are (module, function, args) triples; the
function returns a partial-result dict that Reporter.merge_counts accepts."""
import importlib
import multiprocessing as mp
import os
import random
import traceback

from . import env


_COV = [None]


def _init():
    env.install()
    covdir = os.environ.get('VERIF_COVERAGE')
    if covdir:
        # reach guard (tools/reach.py): line coverage of /repo/src/ZODB in
        # every worker, saved when the worker exits
        import coverage
        cov = coverage.Coverage(data_file=os.path.join(covdir, 'cov'),
                                data_suffix=True, source=['/repo/src/ZODB'])
        cov.start()
        _COV[0] = cov
        import multiprocessing.util as mpu
        mpu.Finalize(None, _save_cov, exitpriority=10)


def _save_cov():
    if _COV[0] is not None:
        _COV[0].stop()
        _COV[0].save()
        _COV[0] = None


def _call(task):
    modname, fname, args = task
    try:
        m = importlib.import_module(modname)
        return getattr(m, fname)(*args)
    except BaseException:
        return {'error': traceback.format_exc(), 'task': repr(task)[:500]}


def run_tasks(tasks, workers, rep, seed=0, chunksize=1):
    """Run all tasks; merge results into rep.  Order of execution is permuted
    by seed; the set of tasks (coverage) does not depend on it."""
    tasks = list(tasks)
    random.Random(seed).shuffle(tasks)
    if workers <= 1 or len(tasks) <= 1:
        env.install()
        results = map(_call, tasks)
        for r in results:
            _merge(rep, r)
        return
    ctx = mp.get_context('fork')
    pool = ctx.Pool(min(workers, len(tasks)), initializer=_init)
    try:
        for r in pool.imap_unordered(_call, tasks, chunksize):
            _merge(rep, r)
        pool.close()        # workers exit normally (finalizers run)
        pool.join()
    except BaseException:
        pool.terminate()
        raise


def _merge(rep, r):
    if r is None:
        return
    if 'error' in r:
        raise RuntimeError('worker failed: %s\n%s' % (r['task'], r['error']))
    rep.merge_counts(r)
