"""Bounded-depth explorer over operation sequences on the real code.

A node is the history reaching it.  The world is rebuilt by replaying the
history on a fresh scratch directory (live storages do not copy).  At every
node the step results were compared with the model while replaying, and the
node oracle runs once.  The subtree below a violating node is not explored.
"""
import hashlib
import importlib

from . import env, par, world


def fingerprint(w):
    """Hash of the implementation state reached (data file bytes for file
    storages, committed content otherwise) plus the clock."""
    h = hashlib.blake2b(digest_size=8)
    if hasattr(w, 'fingerprint'):
        h.update(repr(w.fingerprint()).encode())
        return h.digest()
    if w.flavor == 'F':
        try:
            with open(w.path, 'rb') as f:
                h.update(f.read())
        except OSError:
            pass
    else:
        for t in w.model.txns:
            h.update(t.tid)
            for r in t.recs:
                h.update(r.oid)
                h.update(r.resolve() or b'-')
    h.update(repr((round(env.CLOCK.now - env.T0, 3), w.next_tick)).encode())
    return h.digest()


class Result:
    def __init__(self):
        self.cov = dict(states=0, transitions=0, evaluations=0,
                        traces_validated_against_impl=0,
                        distinct_nontrivial=0)
        self.outcomes = {}
        self.clauses = {}
        self.violations = []
        self.samples = []
        self.fps = set()
        self.sigs = set()

    def as_dict(self):
        return dict(cov=self.cov, outcomes=self.outcomes,
                    clauses=self.clauses, violations=self.violations,
                    samples=self.samples, fps=self.fps)

    def outcome(self, name, n=1):
        self.outcomes[name] = self.outcomes.get(name, 0) + n

    def clause(self, name, n=1):
        self.clauses[name] = self.clauses.get(name, 0) + n

    def violation(self, prop, clause, sig, witness, detail):
        full = '%s.%s' % (prop, clause) if not clause.startswith(prop) \
            else clause
        fsig = '%s:%s' % (full, sig)
        if fsig in self.sigs:
            for i, v in enumerate(self.violations):
                if v[1] == fsig:
                    self.violations[i] = v[:4] + (v[4] + 1,)
            return
        self.sigs.add(fsig)
        self.violations.append((full, fsig, witness, detail, 1))


def subtree(modname, cfg, prefix, depth):
    """Worker entry: explore the subtree rooted at prefix (inclusive)."""
    env.install()
    mod = importlib.import_module(modname)
    res = Result()
    spec = mod.make_spec(cfg)
    _dfs(mod, cfg, spec, [tuple(o) for o in prefix], depth, res)
    d = res.as_dict()
    return d


def _dfs(mod, cfg, spec, hist, depth, res, sample_depth=None):
    w = mod.build(cfg, hist, spec)
    try:
        res.cov['traces_validated_against_impl'] += 1
        res.cov['transitions'] += len(hist)
        viol = [(c if c.startswith(cfg['prop']) else c, s, d)
                for c, s, d in w.violations]
        if hist:
            res.outcome(w.last_outcome if hasattr(w, 'last_outcome')
                        else 'step')
        n = 0
        if not viol:
            try:
                n, nontrivial, more = mod.node(w, hist, cfg, res)
            except Exception as e:      # noqa: B902
                import traceback
                n, nontrivial, more = 0, False, [(
                    'error', 'oracle:%s' % type(e).__name__,
                    dict(error=repr(e)[:300],
                         where=traceback.format_exc()[-600:]))]
            viol += more
            res.cov['evaluations'] += n
            if nontrivial:
                res.cov['distinct_nontrivial'] += 1
            res.fps.add(fingerprint(w))
        if len(res.samples) < 2 and len(hist) == (sample_depth or depth):
            res.samples.append(dict(history=[list(o) for o in hist],
                                    oracle_comparisons=n))
        for c, s, d in viol:
            res.violation(cfg['prop'], c, s,
                          dict(cfg=cfg, history=[list(o) for o in hist]), d)
        if w.violations:
            # a step disagreed with the model: model and implementation are
            # out of step, nothing below this node would mean anything.
            # (Oracle violations do not prune: the state is still in step.)
            return
        if len(hist) >= depth:
            return
        ops = w.enabled(spec)
    finally:
        w.close()
    for op in ops:
        _dfs(mod, cfg, spec, hist + [op], depth, res)


def node_task(modname, cfg, hist, depth):
    """Worker entry: the oracle of one node only (no recursion)."""
    env.install()
    mod = importlib.import_module(modname)
    res = Result()
    spec = mod.make_spec(cfg)
    _dfs(mod, cfg, spec, [tuple(o) for o in hist], len(hist), res,
         sample_depth=depth)
    return res.as_dict()


def explore(rep, modname, cfg, depth, workers, seed, split=2):
    """Explore all histories up to depth.  The master only enumerates the
    nodes above `split` (replay, no oracle); their oracles and the subtrees
    below run in the pool."""
    mod = importlib.import_module(modname)
    spec = mod.make_spec(cfg)
    tasks = []

    def top(hist):
        if len(hist) == min(split, depth):
            tasks.append(('mc.seqx', 'subtree',
                          (modname, cfg, [list(o) for o in hist], depth)))
            return
        tasks.append(('mc.seqx', 'node_task',
                      (modname, cfg, [list(o) for o in hist], depth)))
        w = mod.build(cfg, hist, spec)
        try:
            if w.violations:
                return          # reported by the node task; subtree pruned
            ops = w.enabled(spec)
        finally:
            w.close()
        for op in ops:
            top(hist + [op])

    top([])
    fps = set()

    class Sink:
        def merge_counts(self, r):
            fps.update(r.pop('fps', ()))
            rep.merge_counts(r)
    par.run_tasks(tasks, workers, Sink(), seed)
    return fps


def replay_history(modname, witness):
    """Re-execute one witness without the explorer; returns violations."""
    env.install()
    mod = importlib.import_module(modname)
    cfg = witness['cfg']
    spec = mod.make_spec(cfg)
    hist = [tuple(o) for o in witness['history']]
    res = Result()
    w = mod.build(cfg, hist, spec)
    try:
        viol = list(w.violations)
        n, nt, more = mod.node(w, hist, cfg, res)
        viol += more
    finally:
        w.close()
    return viol
