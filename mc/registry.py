"""Per-property registry from which MANIFEST.json is generated
(tools/mkmanifest.py).  A property appears under `checks` only when its check
is built and silent on the unchanged tree; otherwise under not_applicable."""

ASSUME_COMMON = ('CPython 3.12 on Linux; C persistent/BTrees; clock, random, '
                 'file I/O and locks are owned by the harness through module '
                 'globals; bounds as stated in the evidence file')

CHECKS = {
    'C01': dict(
        technique='exhaustive crash-point enumeration: every op boundary and '
                  'every byte cut of every data-file write, for every history '
                  'up to a depth, on the real FileStorage over a recording '
                  'file layer',
        text='Every history over a 13-operation alphabet (depth 3 quick / 4 '
             'thorough, two buffer sizes) is executed on the real FileStorage; '
             'every prefix of the raw writes/truncates/renames it issues, '
             'including every torn cut of each data-file write, is rebuilt as '
             'a disk image, reopened read-write and compared with the model '
             'prefix (query battery, independent format parser, one more '
             'commit + reopen). fsync-before-ack and append-only are monitors '
             'on the op log.',
        design='3 (C01)',
        note='crash model = prefix of issued ops with a torn last write (the '
             'quantifier of the property); no reordering of unsynced writes'),
    'C02': dict(
        technique='stateless preemption-bounded exploration (iterative '
                  'context bounding) of real threads under a controlled '
                  'scheduler, plus all interleavings of step programs; '
                  'interval oracle on logged reads',
        text='Six 2-3 thread harnesses (writer with two commits, reader with '
             'two transactions hitting the cache, pool user whose connection '
             'receives invalidations while closed, reader with begin, '
             'read-writer, two writers) over a real DB on FileStorage and '
             'MappingStorage: every schedule with <= 2 preemptions (3 '
             'thorough; 3-thread harnesses one less), points at every lock '
             'op, recorded I/O op and raw read beyond the committed end; a '
             'line-level pass over mvccadapter/FilePool/Connection.open/'
             'newTransaction stands in for a race detector. All merges of '
             'pairs (triples) of 10 step programs are run as well. Every '
             'transaction\'s reads must share a point of the commit order '
             'that is not older than the last commit returned before its '
             'boundary, with the stored values.',
        design='5 (C02)',
        note='GIL semantics; bytecode-level interleavings only in the listed '
             'functions; set iteration order of MVCC instances is owned by '
             'the harness'),
    'C03': dict(
        technique='stateless preemption-bounded exploration of real committer '
                  'threads under a controlled scheduler on four storages, '
                  'plus all interleavings of step-program pairs; derivation-'
                  'chain oracle on the final history',
        text='Eight harnesses of 2-3 committers (same object, retry after a '
             'conflict, two objects with the conflict on the second, '
             'readCurrent with and without a savepoint) on FileStorage, '
             'MappingStorage, DemoStorage(Mapping over Mapping) and '
             'DemoStorage(Mapping over FileStorage, objects in the base): '
             'every schedule with <= 2 preemptions (3 thorough). Every write '
             'stores the serial it was derived from, so the final history '
             'shows directly whether each revision derives from its '
             'predecessor; failed commits must leave nothing and must be '
             'justified by a really newer revision; readCurrent objects must '
             'have been current at the commit point.',
        design='5 (C03)',
        note='classes without conflict resolution (C10 covers resolution); '
             'GIL semantics'),
    'C04': dict(
        technique='explicit-state exploration of all operation sequences up '
                  'to a depth on the real storages, full query battery vs a '
                  'list-of-transactions reference model at every node',
        text='All histories (depth 4 quick / 5 thorough on FileStorage, 5/6 on '
             'MappingStorage) over commits, two-object and 9000-byte commits, '
             'metadata up to 65535 bytes, empty transactions, deletes, undo, '
             'resolved and unresolved conflicts, restore with explicit tid and '
             'back-pointer hint, aborts, clock stall / step back, reopen. '
             'After every step ~80-200 queries are compared with the model '
             'and the file is parsed by an independent parser.',
        design='3 (C04)',
        note='marker records may answer POSKeyError or None'),
    'C05': dict(
        technique='exhaustive fault-point and abort-phase enumeration over '
                  'all prefix histories up to a depth on the real storages, '
                  'before/after comparison of files and query battery',
        text='For every prefix history (depth 3 quick) and every victim '
             'transaction - abort at every phase with and without a '
             'concurrent-style read, one injected ENOSPC at every raw '
             'write/truncate/create/fsync of begin+stores+vote incl. torn '
             'writes, quota, conflict, over-long metadata, a refused or '
             'aborted undo, a failing second resource manager, calls with the '
             'wrong transaction - the real storage is rebuilt, the victim run, '
             'and files + battery compared with the pre-victim snapshot; a '
             'follow-up commit must succeed (controlled locks turn a leaked '
             'commit lock into a DeadlockError) and the reopened storage must '
             'equal model + follow-up.',
        design='3 (C05)',
        note='one injected failure per victim (deviation bound 1); failures '
             'of the cleanup ops of the abort itself are outside the oracle'),
    'C06': dict(
        technique='explicit-state exploration of all undo-centred operation '
                  'sequences up to a depth on the real FileStorage against a '
                  'reference undo rule, plus enumerated DB.undo scenarios',
        text='All histories (depth 6 quick / 7 thorough) over create / modify '
             '/ two-object transactions / identical rewrite / undo of the '
             'k-th newest transaction / two undos in one transaction / reopen '
             '/ pack, with one object of a class without resolver and one of a '
             'class with a scripted recording three-way merge. After every '
             'step the battery and an independent parse of the file are '
             'compared with the model, a refused undo must leave the file '
             'byte-identical, and the resolver must have been shown exactly '
             '(undone, current, previous). DB.undo is run for 6 histories x '
             'every target x cached/uncached observer x 4 kinds of boundary, '
             'including undo of the undo.',
        design='3 (C06)',
        note='undo of a transaction that itself wrote one oid twice is '
             'outside the modelled alphabet; after a pack the list model is '
             'not continued'),
    'C07': dict(
        technique='explicit-state exploration of all object-graph histories '
                  'up to a depth x every pack time x gc on/off on the real '
                  'storages; relational oracle (unpacked vs packed battery) '
                  'and differential undo',
        text='Histories over a root and 2 (3) objects with explicit reference '
             'lists - create linked / as garbage, link, unlink (cycles), '
             'modify, undo - explored to depth 4 (5) from the root and from a '
             'root->1->2 chain on FileStorage and MappingStorage. For every '
             'node, pack(T, gc) runs on a fresh replay for every T in {before '
             'first, each tid, after last} x gc on/off; the packed storage '
             'must answer like the unpacked one for every snapshot after T of '
             'every pinned object, list the same later transactions, have '
             'removed only superseded or garbage revisions, answer the same '
             'after reopen (file re-parsed independently) and after a second '
             'pack, and undo every later transaction with the same result as '
             'an unpacked copy.',
        design='3 (C07)',
        note='weak reading: objects unreachable at T and not written after T '
             'may be removed even if re-linked later (strict reading reported '
             'as known finding); a failing pack must leave everything '
             'unchanged'),
    'C08': dict(
        technique='stateless preemption-bounded exploration of real packer / '
                  'committer / reader / undoer threads under a controlled '
                  'scheduler, and exhaustive crash-point enumeration over the '
                  'recorded I/O of every explored packer+writer schedule',
        text='Nine harnesses over a FileStorage DB with three prepared '
             'transactions (pack to a past time and to now; writer with two '
             'commits; writer + reader; DB-level and storage-level readers; '
             'second packer; undoer; two writers): every schedule with <= 2 '
             '(3) preemptions, points at lock ops, recorded I/O ops and raw '
             'reads beyond the committed end, plus a line-level pass over '
             'FilePool and pack(). Readers are judged by the C02 interval '
             'oracle, writers by the C03 chain oracle, the reopened file must '
             'equal the live state and parse, nothing at or after T may be '
             'lost, only the second concurrent pack may be refused. For every '
             'schedule of packer+writer (bound 1) every op boundary after the '
             'pack started is rebuilt as a disk image and reopened.',
        design='4 (C08)',
        note='crash model = prefix of issued file-system ops in issue order; '
             'GIL semantics'),
    'C09': dict(
        technique='exhaustive enumeration of (history, data-file image, '
                  'index version / truncation / leftover files) triples on '
                  'the real FileStorage, differential against the index-less '
                  'open',
        text='For every history (depth 4 quick / 5 thorough, incl. pack and '
             'reopen) every data-file image of the last step is opened with '
             'no index, the current index, every index version ever written '
             'or that a close after any earlier step would have written, '
             'every byte-prefix truncation of each version and with junk '
             '.tmp/.lock/.pack/.old/.index_tmp files; each open must answer '
             'the battery like the index-less open. Every image is also '
             'opened read-only: files byte-identical afterwards, every write '
             'entry point raises ReadOnlyError, same battery.',
        design='4 (C09)',
        note='bit damage inside an index is outside the property; one known '
             'finding (stale pre-pack index passing the sanity heuristic)'),
    'C10': dict(
        technique='exhaustive enumeration of conflict scenarios (storage x '
                  'class kind x reference formats x number and order of stale '
                  'writers) on real connections, with a recording resolver',
        text='Every combination of 3 storages that resolve conflicts, 6 class '
             'kinds (resolver merging / raising ConflictError / raising '
             'AttributeError / wrong arity, no resolver, class not importable '
             'while resolving), 7 reference sets (ordinary, bare-oid, weak, '
             'cross-database, weak cross-database, all) and 2-3 stale writers '
             'in every commit order runs on a real multi-database setup. For '
             'mergeable kinds the resolver must have been shown exactly '
             '(base, committed, new) incl. every reference, the writer\'s copy '
             'must be a ghost that reads the merged value, and a fresh '
             'connection must load the merged value with every reference '
             'still naming the same oid / database / weakness. All other '
             'kinds must raise ConflictError and store nothing. Failing-then-'
             'mergeable sequences on one class catch poisoned caches.',
        design='5 (C10)',
        note='MappingStorage has no resolution; longer undo histories are '
             'explored by C06'),
    'C11': dict(
        technique='explicit-state exploration of all operation sequences up '
                  'to a depth on a real connection against an object-state '
                  'reference model',
        text='All sequences (depth 6 quick / 7 thorough on MappingStorage, one '
             'less on FileStorage) over modify / link / explicit add / unlink '
             '/ commit / abort / a rival commit that makes our commit conflict '
             '/ commit with another participant failing in tpc_vote / commit '
             'with the storage failing in tpc_finish / close + reopen. After '
             'every step each tracked object (existing and new) is compared '
             'with the model: _p_jar/_p_oid ownership, value, change flags; '
             'after a commit the exact set of stored oids and their single '
             'tid; an observer connection must see exactly the committed '
             'state; close inside a transaction must be refused.',
        design='5 (C11)',
        note='attributes of objects that belong to no database are not '
             'compared until they are added again'),
    'C12': dict(
        technique='explicit-state exploration of all savepoint programs up to '
                  'a depth on a real connection against per-handle model '
                  'snapshots',
        text='All sequences (depth 6 quick / 7 thorough) over modify / link / '
             'add / unlink / savepoint / rollback to any live handle / commit '
             '/ abort, with up to 2 (3) live handles and 2 (3) tracked '
             'objects. After every rollback every object must show the '
             'snapshot state of that handle and objects created after it must '
             'be un-added - also on the second and third rollback to the same '
             'handle; commits must store exactly the final states; the '
             'observer never sees uncommitted data; no TmpStore file survives '
             'the transaction.',
        design='5 (C12)',
        note='nested blob savepoints also in C13'),
    'C13': dict(
        technique='explicit-state exploration of all blob operation sequences '
                  'up to a depth on a real connection over FileStorage with a '
                  'blob directory, file-set / byte oracle after every step',
        text='All sequences (depth 4 quick / 5 thorough, from the initial '
             'state and from a state with an undone rewrite) over rewrite / '
             'append / consumeFile on an existing and a new blob, link, '
             'modify a plain object, savepoint, rollback, commit, abort, a '
             'rival commit that makes ours conflict after the blob was '
             'stored, a commit failing after the vote, DB.undo, pack. After '
             'every step the set of .blob files must equal the committed, '
             'unpacked blob revisions of the model with exactly their bytes '
             'and read-only mode, nothing else may remain under the blob '
             'directory once no transaction is in progress, the main '
             'connection reads its working bytes and an observer only '
             'committed bytes.',
        design='5 (C13)',
        note='a later change of a blob\'s bytes is a conflicting change for '
             'undo; the wrapper\'s writable undo copies and its stray copy '
             'of an undone creation are exempted (DESIGN 2.4)'),
    'C14': dict(
        technique='bounded-exhaustive enumeration of object-graph inputs '
                  '(node kinds x edge subsets x edge placements x add modes x '
                  'oid shapes x reference formats), each stored and reloaded '
                  'through the real serializer',
        text='Every graph over a root and two new nodes of 3 (6) kinds '
             '(plain, __getnewargs__, PersistentMapping, PersistentList, '
             'class missing at load time, Blob), every subset of 6 edges incl. '
             'cycles and self-loops with each edge placed directly / in a '
             'list / in a dict in a tuple, unreachable nodes added explicitly '
             'or not (47k graphs quick); families with weak, cross-database '
             'and weak cross-database edges, oids forced to all-ASCII and '
             'high-bit values, a savepoint rollback followed by re-attaching '
             'the same objects, and hand-assembled protocol-1 records with '
             'short-string oids in every reference format. Each graph is '
             'committed on a real multi-database, then: stored iff reachable '
             'from stored or added; no record contains another node\'s '
             'state; referencesf(record) equals, as a list, the strong '
             'same-database references that a wrapper around persistent_id '
             'logged; a second connection loads an isomorphic graph with one '
             'object per oid; legacy records load and survive a gc pack.',
        design='6 (C14)',
        note='three nodes incl. the root (four in the cyclic families); '
             'Python-2 str oids only with bytes < 0x80'),
    'C15': dict(
        technique='explicit-state exploration of all histories up to a depth '
                  'x every historical point (tid and datetime forms) on a real '
                  'DB, reads compared with the recorded past states',
        text='All histories (depth 6 quick / 7 thorough) over modify / create '
             '/ modify the new object / undo (incl. undo of a creation) / '
             'unlink + storage-level delete, with several transactions per '
             'clock second. At every node a historical connection is opened '
             'at every tid, before every tid, before tid+1, and at / before '
             'naive and timezone-aware datetimes between transactions; every '
             'object is read and compared with the state recorded when that '
             'transaction committed, again after two more live commits, and '
             'through a historical connection kept open across them. A write '
             'through a historical connection must raise and store nothing; '
             'a point later than the newest transaction must raise '
             'ValueError.',
        design='5 (C15)',
        note='no pack in the histories (points older than the last pack are '
             'excluded by the property)'),
    'C16': dict(
        technique='explicit-state exploration of all histories through a real '
                  'DemoStorage for every base history and layering, battery '
                  'against one combined list model, base snapshot comparison',
        text='For 6 base histories (depth 0-2, applied to the base directly) '
             'and the 4 layerings of MappingStorage / FileStorage as base and '
             'changes: all histories (depth 4 quick / 5 thorough) over create, '
             'modify base and changes objects, two-object transactions, stale '
             'stores with and without a resolver, undo, abort after vote, '
             'pack, push and pop. After every step the full battery of the '
             'demo storage is compared with ONE list-of-transactions model of '
             'both layers (intervals joining the layers, conflict detection '
             'and resolution against the merged current serial, undo), the '
             'base\'s battery and files with the snapshot taken before the '
             'demo storage existed, and new_oid - with the random source '
             'aimed at ids of both layers - with the ids present.',
        design='3 (C16)',
        note='two known findings (undo of the first change to a base object; '
             'allocator re-issuing an un-created oid); clock monotone across '
             'layers'),
    'C17': dict(
        technique='explicit-state exploration of source histories with '
                  'copy / recovery compared by the full battery, and '
                  'exhaustive damage enumeration (every byte offset x 5 '
                  'damage kinds) for the recovery tool',
        text='For every source history (depth 4 quick / 5 thorough over 14 '
             'operations incl. undo, two undos in one transaction, deletes, '
             'restore hints, pack) and from a state with a two-record '
             'transaction: copyTransactionsFrom into FileStorage with and '
             'without blob directory, piecewise through iterator(start, '
             'stop) split after every transaction, and fsrecover.recover on '
             'the undamaged file must each answer the whole battery like the '
             'source (tids, status, metadata, records, un-creations); blob '
             'histories are copied file by file. For 3 fixed histories (all '
             'depth-2 histories in the thorough tier) every byte offset x '
             '{cut, zero 1/8/64 bytes, 0xFF x 8, one checkpoint-flag byte} '
             'is recovered under a read '
             'budget: it must terminate, keep every transaction that ends '
             'before the damage, and change no transaction outside it.',
        design='3 (C17)',
        note='transactions overlapping the damage, or depending on one that '
             'does through a back pointer, are unconstrained (no checksums '
             'in the format)'),
    'C18': dict(
        technique='explicit-state exploration of all backup histories up to a '
                  'depth through repozo.main on a live FileStorage with a '
                  'virtual clock, plus exhaustive damage enumeration of '
                  'repository files for verification',
        text='All histories (depth 4 quick / 5 thorough) over commit, pack, '
             'backup with 6 (10) flag sets of full / quick / gzip / kill-old, '
             'and backup while a transaction sits between vote and finish. '
             'After every history recovery runs for every date in {none, each '
             'backup second, +-1 s} with and without --with-verify; the '
             'output must equal, byte for byte, the committed prefix of the '
             'data file recorded when the selected (still held) backup ran, '
             'or be refused when no backup qualifies; it must open with the '
             'restored index and answer like the index-less open; the intact '
             'repository must verify in full and quick mode. For 3 fixed '
             'chains every data file is removed, grown, cut at every length '
             'and altered at every byte: full verify fails iff the decoded '
             'payload differs, quick verify iff the decoded size differs.',
        design='6 (C18)',
        note='"any backup file" = data files of the chain -V reads; content '
             'decided with the gzip module repozo uses'),
    'C19': dict(
        technique='explicit-state exploration of the real fsIndex over a '
                  '12-key alphabet, every query compared with a sorted dict',
        text='Every content of the real fsIndex over 12 keys (4 prefixes incl. '
             'the smallest and largest possible, 3 suffixes) is built on the '
             'real object along two paths; all ordered-map queries for 35 '
             'present/absent query keys, all transitions and a save/load round '
             'trip are compared with a sorted dict. Exhaustive within the '
             'alphabet, which contains one key per shortcut in the code '
             '(absent prefix, boundary prefix, empty bucket after delete).',
        design='6 (C19)',
        note='values < 2**48; alphabet of 12 keys; ValueError is the contract '
             'for an empty range'),
    'C20': dict(
        technique='explicit-state exploration of all allocation histories up '
                  'to a depth on four storages, plus preemption-bounded '
                  'schedule exploration of concurrent allocators',
        text='All histories (depth 4 quick / 5 thorough) over new_oid, store '
             'of issued ids, store/restore of explicit ids at byte-carry and '
             'sign boundaries, abort after new_oid, pack, reopen and a '
             'DB-level add + savepoint + export/import step, on FileStorage, '
             'MappingStorage and two DemoStorage layerings with a scripted '
             'random source aimed at ids in the base; every id handed out is '
             'checked against the ids issued in the session and all ids '
             'present. Two and three allocator threads (plus a committer of '
             'an explicit id) are explored to 3 (4) preemptions incl. a '
             'line-level pass over the allocator code.',
        design='3 (C20)',
        note='ids issued but never stored may be re-issued after reopen'),
}

MORE = {
    'C02': 'A harness whose object x was last written by an undo (a record '
           'pointing back to older data) makes every raw read through the '
           'storage\'s own read/write handle a scheduling point; a thread '
           'asking for history() while a writer commits (the entries must be '
           'the object\'s revisions); a connection that comes back from the '
           'pool after ZODB.Connection.resetCaches().',
    'C03': 'Objects of a bit-set class that merges (every writer adds its own '
           'bit: no revision may lose a bit, every committed bit is in the '
           'final state, a failed commit\'s bit nowhere), writers across an '
           'undo / a delete of the revision they hold, readCurrent declared '
           'on a ghost, and readCurrent followed by a tentative change that '
           'is rolled back (with and without a savepoint that stored it).',
    'C04': 'Metadata with one field only, extension keys named like the '
           'entries the storage computes, stale writers on deleted / '
           'un-created objects; the undo log must list every transaction.',
    'C05': 'One failure at every raw operation of tpc_finish and a raising '
           'finish callback (afterwards byte for byte the old file or the one '
           'a twin run without the failure produces); the abort / metadata / '
           'conflict / stray-tpc_abort / finish-callback victims also on '
           'three DemoStorage layerings and the BlobStorage wrapper over a '
           'FileStorage and a MappingStorage and a FileStorage with its own '
           'blob directory, with blob stores; stray calls (incl. storeBlob) '
           'with another transaction at every entry point; on the three blob '
           'kinds one failure at the n-th mutating file-system operation of '
           'begin + store + 2 blob stores + vote for every n, with the files '
           'handed in on the same and on another file system (rename '
           'answers EXDEV).',
    'C06': 'DB.undoMultiple in both orders; after every refused DB.undo the '
           'next ordinary commit must go through (controlled locks); a '
           'storage client that catches the refusal of an undo and commits '
           'the transaction all the same (nothing may have been written).',
    'C07': 'Packs of a storage whose first request hit an empty database, a '
           'start state with two records of one object in one transaction, '
           'stale-id undo of the newest packed transaction (refused, or same '
           'effect as without pack), DB.pack(t, days) for every argument '
           'combination; a pack that raises in these histories is a '
           'violation unless garbage collection met a reference to an '
           'object that does not exist; the next commit after every pack, '
           'with a clock that has not moved, gets an id later than '
           'lastTransaction().',
    'C08': 'Three concurrent packs with a packer-entry oracle, pack+writer '
           'with 64 / 96 / 160-byte buffers (read-ahead and partial flushes), '
           'one ENOSPC at the n-th file-system operation of a pack for every '
           'n (pack time at the end and in the middle) and a stale .old that '
           'cannot be removed: a failed pack leaves the same answers, and the '
           'next commit, pack and reopen work; '
           'a long undoLog() (several batches) against a pack; the BlobStorage wrapper\'s '
           'own pack (over FileStorage and MappingStorage) against a '
           'transaction that creates / rewrites a blob, up to 3 preemptions: '
           'every committed blob reads back.',
    'C09': 'Torn-tail images opened read-only incl. start/stop iteration; a '
           'read-only open told about a blob directory that does not exist '
           'creates nothing.',
    'C10': 'The base or the committed revision written by a transactional '
           'undo (FileStorage, DemoStorage with a FileStorage as changes or '
           'as base), a writer that stores the state it started from, and the '
           'undo path itself: one undo, two undos in one transaction in both '
           'orders, for every class kind and reference set; ZODB\'s hex '
           'wrapper (a record-transforming storage) around FileStorage, '
           'FileStorage with a blob directory and the BlobStorage proxy; a '
           'merging class whose state shares an object with its class '
           'metadata (__getnewargs__).',
    'C11': 'A new object reachable only through an existing object whose '
           'store fails; modifications and add() refused by the transaction machinery '
           '(explicit mode outside a transaction, a failed transaction not '
           'yet aborted) for two connections sharing one manager, independent '
           'and as primary / secondary of a multi-database with close of the '
           'primary; observers look after every step.',
    'C12': 'Blob rewrites (FileStorage with a blob directory), a rival '
           'commit or another participant\'s failing vote after savepoints '
           '(plain objects, blobs, new objects), leftovers under the blob '
           'temporary directory; a savepoint or commit whose flush fails at '
           'an unpicklable new object next to another new object.',
    'C13': 'Two live savepoints from states where a savepoint holds the blob '
           '/ only the plain object; the BlobStorage wrapper over FileStorage '
           'and MappingStorage; an undo that is started and aborted; a rival '
           'rewriting the blob itself; consumeFile of a missing file; a pack '
           'running inside another participant\'s vote; chains of undo / redo '
           'of a creation and of a rewrite; one undoMultiple of every set of '
           '2+ rewrites of a blob (refused below a kept rewrite) followed by '
           'a pack; a blob below a committed container written with 1-2 '
           'savepoints while nothing references it and the cache is emptied.',
    'C14': 'A weak edge in the savepoint re-attach family (same WeakRef '
           'object attached twice), a holder of a missing-class object '
           'modified and stored while the class is missing, a weak '
           'cross-database edge read in a session without that database; an '
           'edge that leads to another (already visited) node is a '
           'violation.',
    'C15': 'Aware datetimes in two non-UTC zones; two databases of one '
           'multi-database with every interleaving pattern of their commits, '
           'read through get_connection and a cross-database reference at '
           'every point, writes through the secondary refused.',
    'C16': 'The temporary changes a demo storage creates itself as third '
           'changes kind, pack as DB.pack asks for it; a pack must leave '
           'every current state, a failing pack everything, and may take '
           'answers about older snapshots away but never change them; a blob-capable '
           'base under a fresh implicit / pushed layer with every pair of '
           'blob operations first, and under explicit changes storages that '
           'cannot hold blobs (reads of the base\'s blobs).',
    'C17': 'A MappingStorage as the source of copyTransactionsFrom; a '
           'source transaction the destination refuses (description too '
           'long): what was copied before stays, the destination is left '
           'outside any transaction with its commit lock free.',
    'C18': 'Backups during which the clock moves at every reading, within '
           'the same second as the step before (may be refused), with a pack '
           'completing inside the run; a start state whose newest increment '
           'is empty; a repository path with a blank; damage histories with '
           'an older chain behind the current one and with empty increments; '
           'a recovery must come with an index.',
    'C19': 'Value 0; delete + insert under the same prefix and clear + insert '
           'from every state.',
    'C20': 'The demo allocator\'s next random draw is an operation (aimed at '
           'issued / stored ids), stores that are aborted or whose finish fails; committers of an '
           'explicit id just above the mark and of an issued id that the '
           'random source keeps drawing.',
}
for _k, _v in MORE.items():
    CHECKS[_k]['text'] += ' Added later: ' + _v

NOT_BUILT_REASON = ('check not built yet in this round; the design claims it '
                    '(DESIGN.md section %s) and it will move to checks once '
                    'it runs silent on the unchanged tree')

SECTIONS = {
    'C01': '3', 'C02': '5', 'C03': '5', 'C04': '3', 'C05': '3', 'C06': '3',
    'C07': '3', 'C08': '4', 'C09': '4', 'C10': '5', 'C11': '5', 'C12': '5',
    'C13': '5', 'C14': '6', 'C15': '5', 'C16': '3', 'C17': '3', 'C18': '6',
    'C19': '6', 'C20': '3',
}
