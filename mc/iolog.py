"""Recording + fault-injecting file layer.

rec_open builds the same object stack the builtin open builds, but the raw
layer is a FileIO subclass that logs (and may fail) write/truncate.  OsProxy
stands in for the `os` module inside ZODB modules and logs (and may fail)
namespace operations and fsync.  Nothing outside LOG.root is recorded.
"""
import errno
import io
import os as _os

_real_open = open


class IOLog:
    def __init__(self):
        self.reset()

    def reset(self, root=None, bufsize=8192):
        self.root = root            # only paths under root are recorded
        self.ops = []               # the op log
        self.recording = False
        self.bufsize = bufsize
        self.fds = {}               # fd -> path of live recorded files
        # fault plan: the n-th (0-based) mutating op after arming fails
        self.fail_at = None
        self.fail_partial = 0       # bytes of a failing write that land
        self.fail_kinds = None      # restrict counting to these op kinds
        self.count = 0              # mutating ops seen since arming
        self.injected = None        # op that was failed
        self.fail_pending = None    # path whose next raw write reports the error
        self.reading_raw = None     # raw file of the read being reported
        self.point_hook = None      # scheduler hook: called before each op
        self.read_hook = None       # called with (path, pos, n) on raw reads
        self.reads = 0

    def watched(self, path):
        return (self.recording and self.root is not None
                and isinstance(path, str) and path.startswith(self.root))

    def arm(self, n, partial=0, kinds=None):
        self.fail_at = n
        self.fail_partial = partial
        self.fail_kinds = kinds
        self.count = 0
        self.injected = None
        self.fail_pending = None

    def disarm(self):
        self.fail_at = None
        self.fail_pending = None

    def op(self, *op):
        """Log a mutating op; returns True if the fault plan says it fails."""
        if self.point_hook is not None:
            self.point_hook(op)
        fail = False
        if self.fail_at is not None and (
                self.fail_kinds is None or op[0] in self.fail_kinds):
            if self.count == self.fail_at:
                fail = True
                self.injected = op
            self.count += 1
        if not fail:
            self.ops.append(op)
        return fail

    def mark(self, *what):
        self.ops.append(('mark',) + what)


LOG = IOLog()


def _enospc(what):
    return OSError(errno.ENOSPC, 'injected failure: %s' % (what,))


class RecFileIO(io.FileIO):
    """Raw file whose mutating calls are logged."""

    def __init__(self, path, mode):
        super().__init__(path, mode)
        self._rpath = _os.path.abspath(path)
        self._append = 'a' in mode
        LOG.fds[self.fileno()] = self._rpath

    def write(self, b):
        b = bytes(b)
        if self._append:
            pos = _os.fstat(self.fileno()).st_size
        else:
            pos = _os.lseek(self.fileno(), 0, 1)
        if LOG.fail_pending == self._rpath:
            # the rest of a short write: now the error is reported
            LOG.fail_pending = None
            raise _enospc(('write', self._rpath, pos, len(b)))
        if LOG.op('write', self._rpath, pos, b):
            # as write(2) does it: a write that cannot be completed reports
            # the bytes it did write (a short count), and the error comes
            # with the next call, which the buffered layer issues at once
            # for the remainder
            j = min(LOG.fail_partial, len(b) - 1)
            if j > 0:
                LOG.ops.append(('write', self._rpath, pos, b[:j]))
                LOG.fail_pending = self._rpath
                return super().write(b[:j])
            raise _enospc(('write', self._rpath, pos, len(b)))
        return super().write(b)

    def truncate(self, size=None):
        if size is None:
            size = _os.lseek(self.fileno(), 0, 1)
        if LOG.op('truncate', self._rpath, size):
            raise _enospc(('truncate', self._rpath, size))
        return super().truncate(size)

    def close(self):
        if not self.closed:
            try:
                LOG.fds.pop(self.fileno(), None)
            except ValueError:
                pass
        super().close()


class RecFileIOReads(RecFileIO):
    """Also reports raw reads (used for scheduling points and termination
    counting)."""

    def readinto(self, b):
        LOG.reads += 1
        if LOG.read_hook is not None:
            LOG.reading_raw = self      # which handle (for the hook)
            LOG.read_hook(self._rpath, _os.lseek(self.fileno(), 0, 1), len(b))
        return super().readinto(b)

    def readall(self):
        LOG.reads += 1
        if LOG.read_hook is not None:
            LOG.read_hook(self._rpath, _os.lseek(self.fileno(), 0, 1), -1)
        return super().readall()


READS = [False]     # set READS[0] = True to use the read-reporting raw class


def rec_open(file, mode='r', buffering=-1, encoding=None, errors=None,
             newline=None, closefd=True, opener=None):
    if not isinstance(file, str) or not LOG.watched(_os.path.abspath(file)):
        return _real_open(file, mode, buffering, encoding, errors, newline,
                          closefd, opener)
    path = _os.path.abspath(file)
    binary = 'b' in mode
    rawmode = mode.replace('b', '').replace('t', '')
    creating = ('w' in rawmode or 'x' in rawmode or
                ('a' in rawmode and not _os.path.exists(path)))
    if creating:
        # creation / truncation to zero is a mutating namespace op
        if LOG.op('create', path):
            raise _enospc(('create', path))
    elif LOG.point_hook is not None:
        LOG.point_hook(('open', path, mode))
    cls = RecFileIOReads if READS[0] else RecFileIO
    raw = cls(path, rawmode)
    if buffering == 0:
        if not binary:
            raise ValueError("can't have unbuffered text I/O")
        return raw
    bs = LOG.bufsize if buffering < 0 else buffering
    if '+' in rawmode:
        buf = io.BufferedRandom(raw, bs)
    elif 'r' in rawmode:
        buf = io.BufferedReader(raw, bs)
    else:
        buf = io.BufferedWriter(raw, bs)
    if binary:
        return buf
    text = io.TextIOWrapper(buf, encoding, errors, newline)
    text.mode = mode
    return text


class OsProxy:
    """Stands in for the os module in ZODB modules."""

    path = _os.path

    def __getattr__(self, name):
        return getattr(_os, name)

    def _ns(self, kind, real, *paths, **kw):
        ap = tuple(_os.path.abspath(p) for p in paths)
        if LOG.watched(ap[0]):
            if LOG.op(kind, *ap):
                raise _enospc((kind,) + ap)
        return real(*paths, **kw)

    def rename(self, a, b):
        return self._ns('rename', _os.rename, a, b)

    def replace(self, a, b):
        return self._ns('rename', _os.replace, a, b)

    def remove(self, p):
        if LOG.watched(_os.path.abspath(p)) and not _os.path.lexists(p):
            return _os.remove(p)        # raises ENOENT, not a mutation
        return self._ns('remove', _os.remove, p)

    unlink = remove

    def link(self, a, b):
        ap, bp = _os.path.abspath(a), _os.path.abspath(b)
        if LOG.watched(bp):
            if LOG.op('link', ap, bp):
                raise _enospc(('link', ap, bp))
        return _os.link(a, b)

    def mkdir(self, p, *a):
        return self._ns('mkdir', lambda q: _os.mkdir(q, *a), p)

    def makedirs(self, p, *a, **k):
        ap = _os.path.abspath(p)
        if LOG.watched(ap):
            # log each directory actually created
            todo = []
            q = ap
            while not _os.path.exists(q):
                todo.append(q)
                q = _os.path.dirname(q)
            for q in reversed(todo):
                if LOG.op('mkdir', q):
                    raise _enospc(('mkdir', q))
        return _os.makedirs(p, *a, **k)

    def rmdir(self, p):
        return self._ns('rmdir', _os.rmdir, p)

    def chmod(self, p, mode):
        ap = _os.path.abspath(p)
        if LOG.watched(ap):
            LOG.ops.append(('chmod', ap, mode))
        return _os.chmod(p, mode)

    def fsync(self, fd):
        path = LOG.fds.get(fd)
        if path is not None and LOG.recording:
            if LOG.op('fsync', path):
                raise _enospc(('fsync', path))
            return None         # data is on tmpfs; nothing to force
        return _os.fsync(fd)


OS = OsProxy()

IO_MODULES = [
    'ZODB.FileStorage.FileStorage', 'ZODB.FileStorage.fspack', 'ZODB.fsIndex',
    'ZODB.blob', 'ZODB.fsrecover', 'ZODB.scripts.repozo',
    'ZODB.ExportImport', 'ZODB.Connection',
]

_installed = False


def install():
    global _installed
    if _installed:
        return
    _installed = True
    from . import env
    for name in IO_MODULES:
        m = env.mod(name)
        if 'os' in vars(m):
            m.os = OS
        m.open = rec_open
    fs = env.mod('ZODB.FileStorage.FileStorage')
    # the module binds os.fsync to a name of its own at import time; if that
    # name is anything else (a wrapper defined in the module), leave it: it
    # reaches the proxy through the module's `os`
    if fs.fsync is _os.fsync:
        fs.fsync = OS.fsync
    blob = env.mod('ZODB.blob')
    # blob.py binds these at import time to the real functions
    if blob.remove_committed is _os.remove:
        blob.remove_committed = OS.remove
        fs.remove_committed = OS.remove
    if blob.link_or_copy is _os.link:
        blob.link_or_copy = OS.link
        fs.link_or_copy = OS.link


# ------------------------------------------------------------ disk images

def snapshot(root):
    """{relative path: bytes} for files, {relpath: None} for directories."""
    snap = {}
    for d, dirs, files in _os.walk(root):
        rel = _os.path.relpath(d, root)
        if rel != '.':
            snap[rel] = None
        for f in files:
            p = _os.path.join(d, f)
            with _real_open(p, 'rb') as fp:
                snap[_os.path.normpath(_os.path.join(rel, f))] = fp.read()
    return snap


class Disk:
    """In-memory replay of an op log on top of a snapshot."""

    def __init__(self, root, snap):
        self.root = root
        self.files = {k: (bytearray(v) if v is not None else None)
                      for k, v in snap.items()}

    def rel(self, p):
        return _os.path.relpath(p, self.root)

    def apply(self, op, upto=None):
        k = op[0]
        if k == 'write':
            _, p, pos, b = op
            if upto is not None:
                b = b[:upto]
            f = self.files.get(self.rel(p))
            if f is None:
                f = self.files[self.rel(p)] = bytearray()
            if len(f) < pos:
                f.extend(b'\0' * (pos - len(f)))
            f[pos:pos + len(b)] = b
        elif k == 'truncate':
            _, p, size = op
            f = self.files.setdefault(self.rel(p), bytearray())
            if len(f) > size:
                del f[size:]
            else:
                f.extend(b'\0' * (size - len(f)))
        elif k == 'create':
            self.files[self.rel(op[1])] = bytearray()
        elif k == 'rename':
            a, b = self.rel(op[1]), self.rel(op[2])
            pre = a + _os.sep
            for key in list(self.files):
                if key == a:
                    self.files[b] = self.files.pop(key)
                elif key.startswith(pre):
                    self.files[b + key[len(a):]] = self.files.pop(key)
        elif k == 'remove':
            self.files.pop(self.rel(op[1]), None)
        elif k == 'link':
            src = self.files.get(self.rel(op[1]))
            if src is not None:
                self.files[self.rel(op[2])] = bytearray(src)
        elif k == 'mkdir':
            self.files[self.rel(op[1])] = None
        elif k == 'rmdir':
            self.files.pop(self.rel(op[1]), None)
        # fsync, chmod, mark, open: no content change

    def materialize(self, dest, skip=()):
        for rel in sorted(self.files):
            v = self.files[rel]
            if any(rel.endswith(s) for s in skip):
                continue
            p = _os.path.join(dest, rel)
            if v is None:
                _os.makedirs(p, exist_ok=True)
            else:
                _os.makedirs(_os.path.dirname(p), exist_ok=True)
                with _real_open(p, 'wb') as f:
                    f.write(v)


def is_mutation(op):
    return op[0] in ('write', 'truncate', 'create', 'rename', 'remove',
                     'link', 'mkdir', 'rmdir')
