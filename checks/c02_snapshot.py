"""C02: every transaction reads from one consistent snapshot.

(b) Real threads under the controlled scheduler: writer / reader / pool-user
harnesses over a real DB on FileStorage and MappingStorage, every schedule up
to a preemption bound, scheduling points at every lock operation, recorded
I/O op and raw read at or beyond the committed end.
(a) All interleavings of per-connection step programs in one thread.

Oracle: from the logged (object, serial, value) of every read and the final
revision list of the storage, the intersection of the validity intervals of a
transaction's reads is non-empty (snapshot), contains a point not older than
the last commit that had returned before the boundary (fresh), and every
value is the one stored at that serial (value).
"""
import itertools

from mc import dbworld, env, iolog, sched, schedx

MOD = 'checks.c02_snapshot'
INF = b'\xff' * 8

W1 = [('open',), ('w', 'x'), ('w', 'y'), ('commit',), ('close',)]
W2 = [('open',), ('w', 'x'), ('w', 'y'), ('commit',), ('w', 'x'), ('w', 'y'),
      ('commit',), ('close',)]
WY = [('open',), ('w', 'y'), ('commit',), ('close',)]
R2 = [('open',), ('r', 'x'), ('r', 'y'), ('abort',), ('r', 'x'), ('r', 'y'),
      ('close',)]
R1 = [('open',), ('r', 'x'), ('r', 'y'), ('close',)]
RYX = [('open',), ('r', 'y'), ('r', 'x'), ('close',)]
POOL = [('open',), ('r', 'x'), ('close',), ('open',), ('r', 'x'), ('r', 'y'),
        ('close',)]
RB = [('open',), ('r', 'x'), ('begin',), ('r', 'y'), ('r', 'x'), ('close',)]
RW = [('open',), ('r', 'x'), ('w', 'y'), ('commit',), ('r', 'x'), ('r', 'y'),
      ('close',)]

VF = [('open',), ('w', 'x'), ('commit-vote-fail',), ('w', 'y'), ('commit',),
      ('close',)]
RXY2 = [('open',), ('r', 'x'), ('abort',), ('r', 'y'), ('close',)]

HIST = [('open',), ('hist', 'x'), ('hist', 'y'), ('close',)]

HARNESSES = {
    # history() walks the file while a committer appends to it
    'writer+history': [W1, HIST],
    # x's current revision was written by an undo (a record that points
    # back to older data): the reader follows the pointer while a committer
    # uses the storage's read/write handle
    'undone-x:writerY+reader': [WY, R1],
    'vetoed-commit-then-commit+reader': [VF, RXY2],
    'writer2+reader2': [W2, R2],
    'writer+pooluser': [W1, POOL],
    'writer+reader-begin': [W1, RB],
    'writer+readwriter': [W1, RW],
    'writer+writerY+reader': [W1, WY, R1],
    'writer+reader+reader': [W1, R1, RYX],
}

LINE_FUNCS = [
    ('ZODB.mvccadapter', '*'),
    ('ZODB.FileStorage.FileStorage', 'get'),
    ('ZODB.FileStorage.FileStorage', 'write_lock'),
    ('ZODB.FileStorage.FileStorage', 'tpc_finish'),
    ('ZODB.Connection', 'newTransaction'),
    ('ZODB.Connection', 'open'),
    ('ZODB.DB', '_returnToPool'),
]


def trace_funcs(which='all'):
    out = set()
    for modname, fn in LINE_FUNCS:
        if which == 'mvcc' and modname != 'ZODB.mvccadapter':
            continue
        out.add((env.mod(modname).__file__, fn))
    return out


def run_one(cfg, choices):
    sched.install_locks()
    iolog.READS[0] = True
    w = dbworld.DBWorld(cfg['kind'], record=cfg['kind'] != 'M')
    if cfg['name'].startswith('undone-x'):
        import transaction
        from base64 import encodebytes
        tm0 = transaction.TransactionManager()
        c0 = w.db.open(tm0)
        c0.root()['x'].v = 5
        env.CLOCK.now += 1
        tm0.commit()
        env.CLOCK.now += 1
        w.db.undo(encodebytes(w.storage.lastTransaction()).rstrip(),
                  tm0.get())
        tm0.commit()
        c0.close()
        # no connection keeps x in its cache
        w.db.cacheMinimize()
        env.CLOCK.now += 1
    progs = [dbworld.Prog(w, i, [tuple(s) for s in steps])
             for i, steps in enumerate(HARNESSES[cfg['name']])]
    bodies = [(lambda s, t, p=p: p.run()) for p in progs]
    S = sched.Scheduler(bodies, choices,
                        trace_funcs=trace_funcs(cfg['lines'])
                        if cfg.get('lines') else None)
    base_end = w.storage.getSize() if cfg['kind'] == 'F' else 0

    def hook(op):
        t = sched._me()
        if t is not None and not S.killed:
            S.point(t, 'io')

    shared = getattr(getattr(w.storage, '_file', None), 'raw', None)

    def rhook(path, pos, n):
        # reads of data written during the run, and every read through the
        # storage's own read/write handle (only lock holders may use it)
        if n < 0 or pos + n > base_end or (
                shared is not None and iolog.LOG.reading_raw is shared):
            t = sched._me()
            if t is not None and not S.killed:
                S.point(t, 'read')
    if w.record:
        iolog.LOG.point_hook = hook
        iolog.LOG.read_hook = rhook
    S.run()
    iolog.LOG.point_hook = None
    iolog.LOG.read_hook = None
    return S, w


def cleanup(w):
    w.close()


def judge_events(w, allow_read_conflict=False):
    """The C02 oracle on a finished world.  Returns (key, violations)."""
    viol = []
    revs = w.revisions()
    byname = {n: revs.get(o, []) for n, o in w.oids.items()}
    # tid of every completed commit, via the unique values it wrote
    val2tid = {}
    for n, rl in byname.items():
        for tid, st in rl:
            val2tid[(n, st.get('v'))] = tid
    writes = {}         # (thread, txn) -> [(name, v)]
    done_before = []    # (event index, tid) of commit-done
    reads = {}          # (thread, txn) -> [(name, serial, value)]
    bstart = {}         # (thread, txn) -> event index of boundary start
    seen = []
    for i, ev in enumerate(w.events):
        k = ev[0]
        if k == 'boundary':
            bstart[(ev[1], ev[2])] = i
        elif k == 'write':
            writes.setdefault((ev[1], ev[2]), []).append((ev[3], ev[5]))
        elif k == 'commit-done':
            ws = writes.get((ev[1], ev[2]), [])
            tids = {val2tid.get(x) for x in ws}
            if ws and (len(tids) != 1 or None in tids):
                viol.append(('commit', 'not-one-tid',
                             dict(writes=ws, tids=sorted(map(repr, tids)))))
            elif ws:
                done_before.append((i, tids.pop()))
        elif k == 'read':
            if ev[6]:
                continue        # own uncommitted change
            reads.setdefault((ev[1], ev[2]), []).append(
                (ev[3], ev[4], ev[5]))
        elif k == 'history':
            tl = [t for t, st in byname[ev[3]]]
            got = [t for t, _, _ in ev[4]]
            # newest first, a suffix-free slice of the object's revisions
            # that ends at its creation, with the descriptions as written
            if (not got or got != sorted(tl[:tl.index(got[0]) + 1
                                            if got[0] in tl else 0],
                                         reverse=True)
                    or any(u or d for _, u, d in ev[4])):
                viol.append(('value', 'history-not-the-revisions',
                             dict(event=ev, revisions=tl)))
        elif k == 'read-error':
            if not (allow_read_conflict and ev[5]):
                viol.append(('error', 'read:%s' % ev[4], dict(event=ev)))
        elif k == 'write-error':
            viol.append(('error', 'write:%s' % ev[4], dict(event=ev)))
    for key, rl in sorted(reads.items()):
        lo, hi = b'', INF
        ok = True
        for name, serial, value in rl:
            tl = [t for t, st in byname[name]]
            if serial not in tl:
                viol.append(('value', 'serial-not-a-revision',
                             dict(txn=key, read=(name, serial, value))))
                ok = False
                continue
            i = tl.index(serial)
            if byname[name][i][1].get('v') != value:
                viol.append(('value', 'wrong-value',
                             dict(txn=key, read=(name, serial, value),
                                  stored=byname[name][i][1].get('v'))))
            nxt = tl[i + 1] if i + 1 < len(tl) else INF
            lo = max(lo, serial)
            hi = min(hi, nxt)
        if not ok:
            continue
        seen.append(tuple(v for _, _, v in rl))
        if not lo < hi:
            viol.append(('snapshot', 'mixed-states',
                         dict(txn=key, reads=rl)))
            continue
        b = bstart.get(key)
        if b is not None:
            last = max([t for i, t in done_before if i < b] or [b''])
            if not hi > last:
                viol.append(('fresh', 'stale-after-boundary',
                             dict(txn=key, reads=rl, last_commit=last)))
    key = (tuple(sorted(set(seen))),
           tuple(e[0] for e in w.events if e[0] in ('commit-failed',)))
    return repr(key), viol


def judge(cfg, S, w):
    for t in S.threads:
        if t.outcome and t.outcome[0] == 'exc':
            e = t.outcome[1]
            return 'thread-exc', [('error', 'thread:%s' % type(e).__name__,
                                   dict(thread=t.id, error=repr(e)[:300]))]
    if S.verdict is not None:
        return 'verdict-%s' % S.verdict, []
    return judge_events(w)


# ---------------------------------------------------- (a) interleavings

CATALOG = {
    'rxy': [('open',), ('r', 'x'), ('r', 'y'), ('close',)],
    'ryx': [('open',), ('r', 'y'), ('r', 'x'), ('close',)],
    'wx': [('open',), ('w', 'x'), ('commit',), ('close',)],
    'wxy': [('open',), ('w', 'x'), ('w', 'y'), ('commit',), ('close',)],
    'rxwy': [('open',), ('r', 'x'), ('w', 'y'), ('commit',), ('close',)],
    'wx-abort': [('open',), ('w', 'x'), ('abort',), ('r', 'x'), ('close',)],
    'reopen': [('open',), ('r', 'x'), ('close',), ('open',), ('r', 'x'),
               ('r', 'y'), ('close',)],
    'r-commit-r': [('open',), ('r', 'x'), ('commit',), ('r', 'x'), ('r', 'y'),
                   ('close',)],
    'r-begin-r': [('open',), ('r', 'x'), ('begin',), ('r', 'y'), ('r', 'x'),
                  ('close',)],
    'r-sync-r': [('open',), ('r', 'y'), ('sync',), ('r', 'x'), ('r', 'y'),
                 ('close',)],
    # the connection comes back from the pool after resetCaches()
    'reopen-reset': [('open',), ('r', 'x'), ('close',), ('reset',),
                     ('open',), ('r', 'x'), ('begin',), ('r', 'x'),
                     ('r', 'y'), ('close',)],
    'hist': [('open',), ('hist', 'x'), ('close',)],
}


LONG = ('reopen-reset', 'hist')


def interleavings(lens):
    """All merges of sequences with the given lengths, as tuples of owner
    indices."""
    total = sum(lens)

    def rec(rem, acc):
        if len(acc) == total:
            yield tuple(acc)
            return
        for i, r in enumerate(rem):
            if r:
                rem[i] -= 1
                acc.append(i)
                yield from rec(rem, acc)
                acc.pop()
                rem[i] += 1
    yield from rec(list(lens), [])


def seq_task(kind, names, max_inter=None):
    """Worker: all interleavings of the named programs, sequentially."""
    env.install()
    sched.install_locks()
    res = schedx._new_res()
    progs_steps = [CATALOG[n] for n in names]
    count = 0
    for order in interleavings([len(p) for p in progs_steps]):
        count += 1
        w = dbworld.DBWorld(kind, record=False)
        try:
            progs = [dbworld.Prog(w, i, st)
                     for i, st in enumerate(progs_steps)]
            pos = [0] * len(progs)
            err = None
            for who in order:
                try:
                    progs[who].step(progs_steps[who][pos[who]])
                except Exception as e:      # noqa: B902
                    err = (who, progs_steps[who][pos[who]], repr(e)[:200])
                    break
                pos[who] += 1
            if err:
                key, viol = 'error', [('error', 'seq:%s' % err[2].split(
                    '(')[0], dict(error=err))]
            else:
                key, viol = judge_events(w)
        finally:
            w.close()
        res['cov']['traces_validated_against_impl'] += 1
        res['cov']['transitions'] += len(order)
        res['cov']['evaluations'] += 1
        res['outcomes'][key] = res['outcomes'].get(key, 0) + 1
        for c, sg, d in viol:
            fsig = 'C02.%s:seq:%s' % (c, sg)
            if not any(v[1] == fsig for v in res['violations']):
                res['violations'].append((
                    'C02.' + c, fsig,
                    dict(seq=dict(kind=kind, programs=list(names),
                                  order=list(order))), d, 1))
    res['cov']['states'] += count
    return res


def run(rep, tier, seed, workers):
    from mc import par
    bound = 2 if tier == 'quick' else 3
    rep.rule = (
        'schedules: every schedule with at most the stated number of '
        'preemptions of each 2-3 thread harness (writer, reader with two '
        'transactions, pool user, reader with begin, read-writer) over a '
        'real DB; scheduling points at every controlled lock operation, '
        'every recorded I/O op, every raw read reaching beyond the '
        'committed end and every raw read through the storage\'s own '
        'read/write handle, plus a line-level pass over mvccadapter, FilePool, '
        'Connection.open/newTransaction and DB._returnToPool; '
        'interleavings: all merges of 2 (3) step programs from a catalogue '
        'of 10, plus 2 longer ones (pool re-use after resetCaches(), '
        'history()) against the 3 writers; non-trivial = execution in which some reader transaction '
        'read both objects')
    plan = []
    for kind in ('F', 'M'):
        for name in HARNESSES:
            three = len(HARNESSES[name]) == 3
            b = bound - 1 if three else bound
            if tier == 'quick' and three and kind == 'M':
                continue
            if name.startswith('undone-x') and kind == 'M':
                continue        # no undo on a MappingStorage
            plan.append(dict(prop='C02', kind=kind, name=name, bound=b))
    # line-level pass
    lb = 1 if tier == 'quick' else 2
    for name in ('writer2+reader2', 'writer+pooluser'):
        plan.append(dict(prop='C02', kind='F', name=name, bound=lb,
                         lines='all'))
    # the MVCC adapter alone, one bound deeper
    for name in ('writer+pooluser', 'writer+reader-begin'):
        plan.append(dict(prop='C02', kind='M', name=name, bound=lb + 1,
                         lines='mvcc'))
    plan2 = []
    for cfg in plan:
        b = cfg.pop('bound')
        plan2.append((cfg, b))
        rep.bounds['%s/%s%s preemptions' % (
            cfg['kind'], cfg['name'],
            '/lines-' + cfg['lines'] if cfg.get('lines') else '')] = b
    schedx.explore_many(rep, MOD, plan2, workers, seed)
    # (a) sequential interleavings
    names = sorted(n for n in CATALOG if n not in LONG)
    tasks = []
    for kind in ('F', 'M'):
        for pair in itertools.combinations_with_replacement(names, 2):
            tasks.append((MOD, 'seq_task', (kind, pair)))
        # the long programs only against the writers
        for n in LONG:
            for wr in ('wx', 'wxy', 'rxwy'):
                tasks.append((MOD, 'seq_task', (kind, (n, wr))))
    if tier != 'quick':
        short = [n for n in names if len(CATALOG[n]) <= 4]
        for tri in itertools.combinations_with_replacement(short, 3):
            tasks.append((MOD, 'seq_task', ('F', tri)))
    par.run_tasks(tasks, workers, rep, seed)
    rep.bounds['interleaved program sets'] = len(tasks)
    rep.cov['distinct_nontrivial'] = len(rep.outcomes)
    rep.assumptions = [
        'CPython GIL: Python-level object updates are not torn; '
        'bytecode-level interleavings are explored only in the listed '
        'functions (line-level pass)']


def replay(w):
    wit = w['witness']
    if 'seq' in wit:
        r = seq_task(wit['seq']['kind'], tuple(wit['seq']['programs']))
        viol = r['violations']
    else:
        viol = schedx.replay(MOD, wit)
    for v in viol:
        print(v[1], v[3])
    return w['signature'] not in {v[1] for v in viol}
