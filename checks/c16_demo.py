"""C16: a demo storage never modifies its base and reads as
changes-over-base.

For every base history (depth <= 1 quick / 2 thorough, applied to the base
directly) and every layering of {MappingStorage, FileStorage} base x
{MappingStorage, FileStorage} changes: all histories up to a depth through the
DemoStorage over {modify a base object, create, modify a changes object, two
objects, stale store (conflict / resolution), undo, abort, pack, push, pop}.
After every step the query battery of the demo storage is compared with ONE
list-of-transactions model of base + changes (the property: both layers are
one database), the base's own battery and files are compared with the
snapshot taken before the demo storage was created, and new_oid is aimed at
ids present in either layer.
"""
import os

from mc import battery, env, iolog, seqx, world
from mc.battery import Exc, call, p64, u64
from mc.refmodel import Model, Z64

MOD = 'checks.c16_demo'
KINDS = ['new', 'mod', 'mod2', 'stale', 'undo', 'ab2', 'back', 'pack', 'push',
         'pop']
BASE_HISTS = {
    0: [[]],
    1: [[('new', 1)], [('new2', 1, 2)]],
    2: [[('new', 1), ('mod', 1)], [('new2', 1, 2), ('mod', 2)],
        [('new2', 1, 2), ('mod2', 1, 2)]],
}


def make_spec(cfg):
    return world.Spec(cfg.get('kinds') or KINDS, oids=(1, 2, 3),
                      classes={1: 'R'}, undo_k=2)


class DemoWorld(world.World):
    def __init__(self, basekind, changeskind, base_hist, spec):
        self.basew = world.World(basekind)
        for op in base_hist:
            self.basew.apply(tuple(op), spec)
        self.kind = 'D(%s,%s)' % (basekind, changeskind)
        self.changes_kind = changeskind
        self.changeskind = changeskind
        self.dir = env.new_dir('dw')
        self.path = os.path.join(self.dir, 'Changes.fs')
        self.blob_dir = None
        self.flavor = 'F' if changeskind == 'F' else 'M'
        self.model = Model(self.flavor)
        self.model.txns = list(self.basew.model.txns)
        self.model.undo_floor = len(self.model.txns)
        self.violations = list(self.basew.violations)
        self.outcomes = []
        self.vcount = self.basew.vcount
        self.next_tick = 1.0
        self.transitions = 0
        self.packed = False
        self.expected_merges = []
        self.record = False
        self.push_stack = []
        base = self.basew.storage
        self.base_obs = self._base_obs()
        self.base_files = iolog.snapshot(self.basew.dir) \
            if basekind == 'F' else {}
        FS = env.mod('ZODB.FileStorage.FileStorage').FileStorage
        MS = env.mod('ZODB.MappingStorage').MappingStorage
        DS = env.mod('ZODB.DemoStorage').DemoStorage
        # aim the allocator at ids that exist in the base
        env.RANDOM.script = [1, 2, 1]
        if changeskind == 'T':
            # the temporary changes a demo storage makes for itself
            self.storage = DS(base=base)
        else:
            changes = FS(self.path) if changeskind == 'F' else MS('changes')
            self.storage = DS(base=base, changes=changes)

    def _base_obs(self):
        m = self.basew.model
        return battery.observe(self.basew.storage, m.oids(), m.tids(),
                               self.basew.flavor, iter_level=0)

    def close(self):
        try:
            self.storage.close()
        except Exception:
            pass
        self.storage = None
        env.rm_dir(self.dir)
        self.basew.storage = None       # closed through the demo storage
        try:
            self.basew.close()
        except Exception:
            pass

    def enabled(self, spec):
        ops = []
        can_undo = self.changeskind == 'F' and not self.push_stack \
            and not self.packed
        inner = world.Spec([k for k in spec.kinds if k not in ('push', 'pop')],
                           spec.oids, spec.classes, spec.undo_k)
        for op in super().enabled(inner):
            k = op[0]
            if k in ('undo', 'undo2') and not can_undo:
                continue
            if k == 'reopen':
                continue
            if k == 'pack' and self.push_stack:
                continue
            ops.append(op)
            if k == 'pack' and self.basew.model.txns:
                # the way DB.pack() asks for it: the storage decides about
                # garbage collection (with nothing in the base, collecting
                # these root-less objects would be right)
                ops.append(('packdb',))
            if k == 'pack' and self.changes_kind != 'T':
                # garbage collection asked for over changes that were
                # handed in: refused - and then nothing has happened
                ops.append(('packgc',))
        if 'push' in spec.kinds and len(self.push_stack) < 1:
            ops.append(('push',))
        if 'pop' in spec.kinds and self.push_stack:
            ops.append(('pop',))
        return ops

    def _apply(self, op, spec):
        if op[0] == 'push':
            self.tick()
            self.push_stack.append((self.storage, len(self.model.txns),
                                    self.flavor, self.model.undo_floor))
            self.storage = self.storage.push()
            self.flavor = 'M'
            self.model.flavor = 'M'
            self.model.undo_floor = len(self.model.txns)
            return 'push'
        if op[0] == 'pop':
            self.tick()
            below, n, flavor, floor = self.push_stack.pop()
            got = self.storage.pop()
            if got is not below:
                self.bad('read', 'pop-returned-other-storage', {})
            self.storage = below
            del self.model.txns[n:]
            self.flavor = self.model.flavor = flavor
            self.model.undo_floor = floor
            return 'pop'
        if op[0] in ('pack', 'packdb', 'packgc'):
            return self._pack(op, spec)
        return super()._apply(op, spec)

    def _pack(self, op, spec):
        """Whatever a pack through the demo storage removes, the current
        state of every object stays (all transactions are older than the
        pack time); a pack that fails changes nothing at all."""
        from ZODB.serialize import referencesf
        m = self.model
        self.tick()

        def current():
            return {o: call(self.storage.load, o) for o in m.oids()}
        def older():
            return {(o, t): call(self.storage.loadBefore, o, t)
                    for o in m.oids() for t in battery.boundaries(m.tids())}
        pre_cur = current()
        pre_old = older()
        pre_all = battery.observe(self.storage, m.oids(), m.tids(),
                                  self.flavor, iter_level=0) \
            if not self.packed else None
        if op[0] == 'pack':
            r = call(self.storage.pack, env.CLOCK.now, referencesf, gc=False)
        elif op[0] == 'packgc':
            r = call(self.storage.pack, env.CLOCK.now, referencesf, gc=True)
            if not isinstance(r, Exc):
                self.bad('read', '%s:pack-with-gc-accepted' % self.kind,
                         dict(op=op))
        else:
            r = call(self.storage.pack, env.CLOCK.now, referencesf)
        post_cur = current()
        if post_cur != pre_cur:
            o = [x for x in pre_cur if pre_cur[x] != post_cur[x]][0]
            self.bad('read', '%s:%s-changed-current-state' % (
                self.kind, 'failed-pack' if isinstance(r, Exc) else 'pack'),
                dict(op=op, oid=o, before=repr(pre_cur[o])[:120],
                     after=repr(post_cur[o])[:120], result=repr(r)[:100]))
        if isinstance(r, Exc):
            if pre_all is not None:
                post_all = battery.observe(self.storage, m.oids(), m.tids(),
                                           self.flavor, iter_level=0)
                if post_all != pre_all:
                    q = [x for x in pre_all if pre_all[x] != post_all.get(x)]
                    self.bad('read', '%s:failed-pack-changed:%s' % (
                        self.kind, q[0][0]), dict(op=op, result=repr(r)[:100]))
            return 'pack-refused:%s' % r.name
        # a reader whose snapshot is older than the pack: a pack may take
        # old answers away (no data / key error: the reader retries), it
        # never turns them into other answers
        post_old = older()
        for key in sorted(pre_old):
            a, b = pre_old[key], post_old[key]
            if b != a and not (b is None or b == Exc('POSKeyError')):
                self.bad('read', '%s:pack-changed-old-answer' % self.kind,
                         dict(op=op, oid=key[0], before_tid=key[1],
                              was=repr(a)[:120], now=repr(b)[:120]))
                break
        self.packed = True
        return 'pack'

    def open(self, **kw):
        raise RuntimeError('a demo world is not reopened')


def undo_reaches_base(w):
    """Some undo record in the changes layer has a base-layer revision as
    its predecessor (or would need one): the situation of the known finding
    'undo of the first change to a base object'."""
    m = w.model
    nbase = len(w.basew.model.txns)
    base_oids = {r.oid for t in m.txns[:nbase] for r in t.recs}
    for t in m.txns[nbase:]:
        for r in t.recs:
            if r.kind != 'data' and r.oid in base_oids:
                return True
    return False


def build(cfg, hist, spec):
    env.reset_globals()
    w = DemoWorld(cfg['base'], cfg['changes'],
                  [tuple(o) for o in cfg['base_hist']], spec)
    for op in hist:
        nv = len(w.violations)
        w.apply(tuple(op), spec)
        if len(w.violations) > nv:
            # a step disagreed with the one-database model: say whether an
            # undo touching a base-layer object is involved
            base_oids = {r.oid for t in w.basew.model.txns for r in t.recs}
            changed = {r.oid for t in w.model.txns[len(w.basew.model.txns):]
                       for r in t.recs}
            involved = undo_reaches_base(w) or (
                op[0] in ('undo', 'undo2') and base_oids & changed)
            if involved:
                w.violations[nv:] = [
                    (c, s + ':undo-involving-base-object', d)
                    for c, s, d in w.violations[nv:]]
    return w


def node(w, hist, cfg, res):
    m = w.model
    viol = []
    n = 0
    tag = w.kind
    if hist:
        res.outcome(w.outcomes[-1])
    # reads as changes-over-base = one database
    if not w.packed:
        exp = battery.expect(m, iter_level=0)
        obs = battery.observe(w.storage, m.oids(), m.tids(), w.flavor,
                              iter_level=0)
        bad = battery.compare(exp, obs, m)
        n += len(exp)
        res.clause('C16.read', len(exp))
        undone_base = undo_reaches_base(w)
        for q, e, g in bad[:2]:
            viol.append(('read', '%s:%s%s' % (
                tag, battery.sig_of('', q, e, g).lstrip(':'),
                ':after-undo-of-first-change-to-base-object'
                if undone_base else ''),
                dict(query=q, expected=repr(e)[:300], got=repr(g)[:300])))
    # the base is untouched
    res.clause('C16.base')
    n += 1
    bo = w._base_obs()
    if bo != w.base_obs:
        q = [k for k in w.base_obs if w.base_obs[k] != bo.get(k)][0]
        viol.append(('base', '%s:battery:%s' % (tag, q[0]), dict(
            query=q, before=repr(w.base_obs[q])[:200],
            after=repr(bo.get(q))[:200])))
    if w.base_files:
        now = iolog.snapshot(w.basew.dir)
        for k, v in w.base_files.items():
            if k.endswith('.lock') or k.endswith('.tmp'):
                continue
            if now.get(k) != v:
                viol.append(('base', '%s:file:%s' % (tag, k.replace(
                    'Data.fs', 'D')), dict(file=k)))
    # id allocation looks at both layers
    res.clause('C16.oid')
    n += 1
    env.RANDOM.script = [u64(o) for o in m.oids()[:3]] + [77]
    w.storage._next_oid = u64(m.oids()[0]) if m.oids() else 5
    r = call(w.storage.new_oid)
    if isinstance(r, Exc) or r in m.oids():
        kind = r.name if isinstance(r, Exc) else (
            'exists' if m.live(r) else 'exists-uncreated')
        viol.append(('oid', '%s:%s' % (tag, kind), dict(got=repr(r))))
    return n, len(m.txns) > m.undo_floor, viol


BLOB_OPS = ('open', 'load', 'store-new', 'store-existing')


def blob_layer_task(layering):
    """A blob-capable base under a demo storage that makes its own changes
    storage ('implicit') or is pushed on top of another demo storage
    ('push'): every sequence of two blob operations as the first thing done
    with the fresh layer; blob reads come from the changes, else from the
    base; the base's files stay as they are."""
    import itertools
    from mc import hclasses, schedx
    env.install()
    res = schedx._new_res()
    seen = set()
    for seq in itertools.product(BLOB_OPS, repeat=2):
        env.reset_globals()
        d = env.new_dir('bl')
        FS = env.mod('ZODB.FileStorage.FileStorage').FileStorage
        DS = env.mod('ZODB.DemoStorage').DemoStorage
        wit = dict(bloblayer=dict(layering=layering, ops=list(seq)))

        def bad(c, sg, det):
            fs = 'C16.%s:blob:%s:%s' % (c, layering, sg)
            if fs not in seen:
                seen.add(fs)
                res['violations'].append(('C16.' + c, fs, wit, det, 1))

        def blobfile(data):
            p = os.path.join(d, 'in.tmp')
            with open(p, 'wb') as f:
                f.write(data)
            return p
        base = FS(os.path.join(d, 'B.fs'), blob_dir=os.path.join(d, 'bb'))
        st = None
        try:
            env.CLOCK.now += 1
            t = world.TMD()
            base.tpc_begin(t)
            base.storeBlob(p64(1), Z64, hclasses.mkrec('P', 1),
                           blobfile(b'base-bytes'), '', t)
            base.tpc_vote(t)
            tid1 = base.tpc_finish(t)
            snap = {k: v for k, v in iolog.snapshot(
                os.path.join(d, 'bb')).items() if v is not None}
            if layering == 'explicit-M':
                # changes storages given by the caller that cannot hold
                # blobs: the blobs of the base are still there to be read
                st = DS(base=base, changes=env.mod(
                    'ZODB.MappingStorage').MappingStorage('c'))
            elif layering == 'explicit-F':
                st = DS(base=base, changes=FS(os.path.join(d, 'C.fs')))
            else:
                st = DS(base=base)
            if layering == 'push':
                st = st.push()
            cur = {1: (tid1, b'base-bytes')}

            def read(how, oid):
                serial, want = cur[oid]
                if how == 'open':
                    r = call(lambda: st.openCommittedBlobFile(
                        p64(oid), serial).read())
                else:
                    r = call(lambda: open(st.loadBlob(
                        p64(oid), serial), 'rb').read())
                if r != want:
                    bad('read', '%s:%s' % (how, r.name if isinstance(
                        r, Exc) else 'wrong-bytes'),
                        dict(oid=oid, expected=want, got=repr(r)[:100]))
            for i, op in enumerate(seq):
                env.CLOCK.now += 1
                res['cov']['transitions'] += 1
                if op in ('open', 'load'):
                    for oid in sorted(cur):
                        read(op, oid)
                elif layering.startswith('explicit'):
                    # (a plain object instead of a blob)
                    t = world.TMD()
                    st.tpc_begin(t)
                    st.store(p64(7 + i), Z64, hclasses.mkrec('P', 10 + i),
                             '', t)
                    st.tpc_vote(t)
                    st.tpc_finish(t)
                else:
                    oid = 2 + i if op == 'store-new' else 1
                    data = b'demo-%d-%d' % (oid, i)
                    t = world.TMD()
                    r = call(st.tpc_begin, t)
                    r = call(st.storeBlob, p64(oid),
                             cur[oid][0] if oid in cur else Z64,
                             hclasses.mkrec('P', 10 + i), blobfile(data),
                             '', t)
                    if not isinstance(r, Exc):
                        r = call(st.tpc_vote, t)
                    if isinstance(r, Exc):
                        call(st.tpc_abort, t)
                        bad('read', 'store:%s' % r.name,
                            dict(op=op, got=repr(r)[:120]))
                        break
                    tid = st.tpc_finish(t)
                    cur[oid] = (tid, data)
            for oid in sorted(cur):
                read('load', oid)
                read('open', oid)
            now = {k: v for k, v in iolog.snapshot(
                os.path.join(d, 'bb')).items() if v is not None}
            if now != snap:
                bad('base', 'files', dict(
                    changed=sorted(set(now) ^ set(snap))[:4]))
            res['cov']['evaluations'] += 1
            res['cov']['states'] += 1
            res['cov']['traces_validated_against_impl'] += 1
            res['cov']['distinct_nontrivial'] += 1
            res['outcomes']['blob-layer'] = 1
        except Exception as e:      # noqa: B902
            bad('error', type(e).__name__, dict(error=repr(e)[:200]))
        finally:
            try:
                (st or base).close()
            except Exception:
                pass
            env.rm_dir(d)
    return res


def run(rep, tier, seed, workers):
    depth = 4 if tier == 'quick' else 5
    bdepths = (0, 1, 2)
    rep.rule = (
        'for every base history (applied to the base storage directly) and '
        'every base x changes layering of MappingStorage / FileStorage / '
        'the temporary changes a demo storage creates itself: all '
        'histories up to the depth through the demo storage over {create, '
        'modify (base and changes objects), two objects, stale store with '
        'and without resolver, undo, abort after vote, pack with gc off, '
        'pack as DB.pack asks for it, push, pop}; a pack must leave the '
        'current state of every object as it was, a failing pack '
        'everything; a blob-capable base under a fresh implicit / pushed '
        'layer with every pair of blob operations first; '
        'after every step: demo battery vs one combined list model, base '
        'battery and files vs their snapshot, new_oid aimed at existing '
        'ids; non-trivial = history with at least one transaction in the '
        'changes layer')
    states = 0
    for base in ('M', 'F'):
        for changes in ('M', 'F', 'T'):
            for bd in bdepths:
                for bh in BASE_HISTS[bd]:
                    cfg = dict(prop='C16', base=base, changes=changes,
                               base_hist=[list(o) for o in bh])
                    fps = seqx.explore(rep, MOD, cfg, depth, workers, seed,
                                       split=2)
                    states += len(fps)
            rep.bounds['D(%s,%s) depth' % (base, changes)] = depth
    rep.bounds['base history depth'] = max(bdepths)
    from mc import par
    before = rep.cov.get('states', 0)
    par.run_tasks([(MOD, 'blob_layer_task', (lay,))
                   for lay in ('implicit', 'push', 'explicit-M',
                               'explicit-F')], workers, rep, seed)
    rep.bounds['blob operations on a fresh layer over a blob-capable '
               'base'] = 2
    rep.cov['states'] = max(states, 1) + rep.cov.get('states', 0) - before
    rep.assumptions = [
        'the clock may step back (also right after the base was written); '
        'a base whose ids are ahead of the clock by more than that is the '
        'same situation',
        'after a pack the list model is not continued']


def replay(w):
    if 'bloblayer' in w['witness']:
        r = blob_layer_task(w['witness']['bloblayer']['layering'])
        viol = [(v[0].split('.', 1)[1], v[1].split(':', 1)[1], v[3])
                for v in r['violations']]
    else:
        viol = seqx.replay_history(MOD, w['witness'])
    for v in viol:
        print(v)
    sigs = {'C16.%s:%s' % (c, s) for c, s, d in viol}
    return w['signature'] not in sigs
