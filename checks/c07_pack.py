"""C07: packing never changes what is observable at or after the pack time.

Histories over a root and up to three objects with explicit reference lists
(link, unlink, create linked / as garbage, modify, undo) on real storages;
then pack(T, gc) for every T in {before the first transaction, each tid,
after the last} and gc in {on, off}; then reopen and a second pack.  The
oracle is relational: the query battery of the unpacked storage against the
packed one, restricted by the property's clauses, plus a differential undo
(packed vs unpacked copy).
"""
import os

from mc import battery, env, fsparse, hclasses, seqx, world
from mc.battery import Exc, call, p64, u64
from mc.refmodel import MAXTID, Z64

MOD = 'checks.c07_pack'
ROOT = 0
# a non-initial state: root -> 1 -> 2
CHAIN = [['newlink', 0, 1], ['newlink', 1, 2]]
# ... and one where a transaction holds TWO records of object 1 (two undos in
# one transaction, as DB.undoMultiple does it)
DOUBLE = CHAIN + [['mod', 1], ['mod', 1], ['undo2', 0, 1]]


class GSpec(world.Spec):
    pass


def make_spec(cfg):
    sp = world.Spec(['g'], oids=tuple(range(0, 1 + cfg.get('nobj', 2))),
                    classes={}, undo_k=2)
    sp.selfloop = cfg.get('selfloop', False)
    sp.nmod = cfg.get('nmod', 1)
    return sp


class PackWorld(world.World):
    """World whose records carry explicit reference lists."""

    def refs(self, o):
        d = self.model.cur(self.oid(o))
        if d is None:
            return None
        data = d.resolve()
        if data is None:
            return None
        return [u64(r) for r in hclasses.decode(data)[2]]

    def grec(self, o, refs):
        return hclasses.mkrec('P', self.newval(), [p64(r) for r in refs])

    def enabled(self, spec):
        m = self.model
        objs = [o for o in spec.oids]
        live = [o for o in objs if m.live(self.oid(o))]
        unused = [o for o in objs if m.cur(self.oid(o)) is None]
        ops = []
        if unused:
            c = unused[0]
            for p in live:
                ops.append(('newlink', p, c))
            ops.append(('newgarb', c))
        for p in live:
            rp = self.refs(p)
            for c in objs:
                if c == ROOT or m.cur(self.oid(c)) is None:
                    continue
                if c == p and not spec.selfloop:
                    continue
                if c in rp:
                    ops.append(('unlink', p, c))
                elif m.live(self.oid(c)):
                    ops.append(('link', p, c))
        nonroot = [o for o in live if o != ROOT]
        for o in nonroot[:spec.nmod]:
            ops.append(('mod', o))
        if not self.packed:
            ul = [d for d in m.undoLog() if d['_n']]
            if self.flavor == 'F':
                # never undo the creation of the root
                for i in range(min(spec.undo_k, len(ul) - 1)):
                    if not ul[i]['_dup']:
                        ops.append(('undo', i))
        return ops

    def _apply(self, op, spec):
        k = op[0]
        m = self.model
        O = self.oid
        if k in ('undo', 'undo2', 'reopen', 'pack'):
            return super()._apply(op, spec)
        self.transitions += 1
        self.tick()
        if k == 'mkroot':
            return self.txn([('store', O(ROOT), Z64, self.grec(ROOT, []))])
        if k == 'newlink':
            p, c = op[1], op[2]
            return self.txn([
                ('store', O(c), Z64, self.grec(c, [])),
                ('store', O(p), m.current_serial(O(p)),
                 self.grec(p, self.refs(p) + [c]))])
        if k == 'newgarb':
            return self.txn([('store', O(op[1]), Z64, self.grec(op[1], []))])
        if k == 'link':
            p, c = op[1], op[2]
            return self.txn([('store', O(p), m.current_serial(O(p)),
                              self.grec(p, self.refs(p) + [c]))])
        if k == 'unlink':
            p, c = op[1], op[2]
            return self.txn([('store', O(p), m.current_serial(O(p)),
                              self.grec(p, [r for r in self.refs(p)
                                            if r != c]))])
        if k == 'mod':
            o = op[1]
            return self.txn([('store', O(o), m.current_serial(O(o)),
                              self.grec(o, self.refs(o)))])
        raise ValueError(op)


def build(cfg, hist, spec):
    env.reset_globals()
    w = PackWorld(cfg['kind'])
    if cfg.get('pack_empty_first'):
        # packing an empty database changes nothing - also nothing of the
        # storage object's own state: everything afterwards behaves as usual
        from ZODB.serialize import referencesf
        env.CLOCK.now += 1
        r = call(w.storage.pack, env.CLOCK.now, referencesf)
        if isinstance(r, Exc):
            w.bad('idem', 'pack-of-empty-storage:%s' % r.name,
                  dict(got=repr(r)))
    w.apply(('mkroot',), spec)
    # 'start': a fixed non-initial state from which the tree is explored
    for op in cfg.get('start', []):
        w.apply(tuple(op), spec)
    w.nstart = 1 + len(cfg.get('start', []))
    for op in hist:
        w.apply(tuple(op), spec)
    return w


# ------------------------------------------------------------- the model

def graph_at(model, j):
    """{oid: refs} of current live revisions after the first j transactions,
    and the set reachable from the root."""
    m = model.copy_prefix(j)
    g = {}
    for o in m.oids():
        c = m.cur(o)
        d = c.resolve()
        if d is not None:
            g[o] = list(hclasses.decode(d)[2])
    reach, todo = set(), [p64(ROOT)]
    while todo:
        o = todo.pop()
        if o in reach or o not in g:
            continue
        reach.add(o)
        todo += g[o]
    return g, reach


def pack_times(model):
    """(label, clock time, number of transactions at or before it)."""
    from persistent.TimeStamp import TimeStamp
    out = []
    tids = model.tids()
    first = TimeStamp(tids[0]).timeTime()
    out.append(('before-first', first - 0.5, 0))
    for i, t in enumerate(tids):
        out.append(('at-%d' % (i + 1), TimeStamp(t).timeTime(), i + 1))
    out.append(('after-last', TimeStamp(tids[-1]).timeTime() + 0.5,
                len(tids)))
    return out


def do_pack(storage, t, gc):
    from ZODB.serialize import referencesf
    return call(storage.pack, t, referencesf, gc=gc)


def restricted(obs, since, cur_at_T, T, tids_after):
    """The part of a battery observation that the property pins down:
    snapshots after since[o] of the kept objects, transactions after T."""
    out = {}
    for q, v in obs.items():
        if q[0] in ('load', 'getTid') and q[1] in since:
            out[q] = v
        elif q[0] == 'loadBefore' and q[1] in since and q[2] > since[q[1]]:
            out[q] = v
        elif q[0] == 'loadSerial' and q[1] in since and (
                q[2] > since[q[1]] or q[2] == cur_at_T.get(q[1])):
            out[q] = v
    it = obs.get(('iterator', None, None))
    if isinstance(it, Exc):
        out['iter'] = it
    else:
        out['iter'] = [(t[0], t[2], t[3], t[4], [r[:3] for r in t[5]])
                       for t in it if t[0] > T]
    ul = obs.get(('undoLog',))
    if ul is not None:
        if isinstance(ul, Exc):
            out['undoLog'] = ul
        else:
            from base64 import encodebytes
            ids = {encodebytes(t).rstrip() for t in tids_after}
            out['undoLog'] = [d for d in ul if d['id'] in ids]
    return out


def pinned(m, graphs, oids, tids, j, gc):
    """since[o]: the tid from which snapshots of o are pinned down by the
    property for a pack to the time of transaction j: T for objects reachable
    at T (all objects that exist at T when gc is off), the first write after
    T for objects that were unreachable at T but written afterwards; objects
    unreachable at T and not written afterwards may be removed."""
    T = tids[j - 1] if j else Z64
    since = {}
    for o in oids:
        at_T = (o in graphs[j][1]) if gc else (
            graphs[j][0].get(o) is not None)
        if at_T:
            since[o] = T
        else:
            later = [x.tid for x in m.recs(o) if x.tid > T]
            if later:
                since[o] = later[0]
    cur_at_T = {}
    for o in since:
        if since[o] == T:
            rs = [x.tid for x in m.recs(o) if x.tid <= T]
            if rs:
                cur_at_T[o] = rs[-1]
    return since, cur_at_T


def node(w, hist, cfg, res):
    m = w.model
    viol = []
    n = 0
    if not hist or w.packed:
        return 0, False, viol
    kind = cfg['kind']
    spec = make_spec(cfg)
    oids = m.oids()
    tids = m.tids()
    obs0 = battery.observe(w.storage, oids, tids, w.flavor, iter_level=0)
    graphs = [graph_at(m, j) for j in range(len(tids) + 1)]
    sigs = set()

    def bad(clause, sig, detail):
        if (clause, sig) not in sigs:
            sigs.add((clause, sig))
            viol.append((clause, sig, detail))

    for label, t, j in pack_times(m):
        if cfg.get('start') and j < w.nstart and \
                cfg.get('start') != DOUBLE:
            continue        # covered by the exploration from the root
        T = tids[j - 1] if j else Z64
        after = tids[j:]
        # objects reachable from the root in any state from T onwards
        K = set()
        for jj in range(j, len(tids) + 1):
            K |= graphs[jj][1]
        for gc in ((True, False) if cfg.get('gc', True) else (False,)):
            n += 1
            tag = '%s:%s:%s' % (kind, 'gc' if gc else 'nogc',
                                'T0' if j == 0 else
                                'Tlast' if j == len(tids) else 'Tmid')
            pw = build(cfg, hist, spec)
            try:
                env.CLOCK.now = max(env.CLOCK.now, t) + 1
                r = do_pack(pw.storage, t, gc)
                if isinstance(r, Exc):
                    # "a pack that cannot complete": whatever it raised, the
                    # storage must be unchanged and usable
                    res.outcome('pack-failed-' + r.name)
                    # ... and nothing in these histories (no concurrency, no
                    # fault, no damage) is a reason not to complete
                    # (except a garbage collection that meets a reference
                    # to an object that does not exist, in a state at or
                    # after T: the object graph itself is broken)
                    dangling = gc and any(
                        ref not in graphs[jj][0]
                        for jj in range(j, len(tids) + 1)
                        for o in graphs[jj][1] for ref in graphs[jj][0][o])
                    if not (r.name == 'KeyError' and dangling):
                        bad('refused', '%s:%s' % (tag, r.name),
                            dict(pack=label, gc=gc, error=repr(r)))
                    probe = call(pw.storage.undoLog, 0, 5) \
                        if w.flavor == 'F' else None
                    if isinstance(probe, Exc) and probe.name == 'UndoError':
                        bad('failed', '%s:storage-stuck-in-pack-mode' % tag,
                            dict(pack=label, gc=gc, error=repr(r)))
                    obsf = battery.observe(pw.storage, oids, tids, w.flavor,
                                           iter_level=0)
                    res.clause('C07.failed-unchanged')
                    if obsf != obs0:
                        q = [k for k in obs0 if obs0[k] != obsf.get(k)][0]
                        bad('failed', '%s:%s:%s' % (tag, r.name, q[0]),
                            dict(pack=label, gc=gc, error=repr(r), query=q,
                                 before=repr(obs0[q])[:300],
                                 after=repr(obsf.get(q))[:300]))
                    continue
                res.outcome('packed')
                obs1 = battery.observe(pw.storage, oids, tids, w.flavor,
                                       iter_level=0)
                since, cur_at_T = pinned(m, graphs, oids, tids, j, gc)
                a = restricted(obs0, since, cur_at_T, T, after)
                b = restricted(obs1, since, cur_at_T, T, after)
                res.clause('C07.keep')
                if a != b:
                    q = [k for k in a if a[k] != b.get(k)][0]
                    qn = q if isinstance(q, str) else q[0]
                    bad('keep' if qn not in ('iter', 'undoLog') else 'txns',
                        '%s:%s' % (tag, qn),
                        dict(pack=label, gc=gc, query=q,
                             before=repr(a[q])[:300],
                             after=repr(b.get(q))[:300]))
                    continue
                # strict reading of the second sentence: an object that was
                # unreachable at T and is not written afterwards, but is
                # reachable again in a later state (re-linked without being
                # rewritten, or referenced by a revision that an undo brings
                # back), must still load.  The first sentence lets the pack
                # remove it; reported under its own clause.
                relinked = [o for o in K if o not in since]
                if relinked:
                    res.clause('C07.relink')
                    rs = {o: T for o in relinked}
                    a2 = restricted(obs0, rs, {}, T, after)
                    b2 = restricted(obs1, rs, {}, T, after)
                    a2.pop('iter', None), b2.pop('iter', None)
                    a2.pop('undoLog', None), b2.pop('undoLog', None)
                    diff = [k for k in a2 if a2[k] != b2.get(k)
                            and k[0] == 'load']
                    if diff:
                        bad('relink', '%s:collected' % tag,
                            dict(pack=label, gc=gc, query=diff[0],
                                 before=repr(a2[diff[0]])[:200],
                                 after=repr(b2.get(diff[0]))[:200]))
                # only: what disappeared was superseded at T or garbage at T
                it0 = obs0[('iterator', None, None)]
                it1 = obs1[('iterator', None, None)]
                have = set()
                if not isinstance(it1, Exc):
                    for tx in it1:
                        for rr in tx[5]:
                            have.add((rr[0], rr[1]))
                res.clause('C07.only')
                for tx in it0:
                    for rr in tx[5]:
                        o, rt = rr[0], rr[1]
                        if (o, rt) in have:
                            continue
                        later_le_T = any(x.tid > rt and x.tid <= T
                                         for x in m.recs(o))
                        # an un-creation / undo marker may go with its object
                        is_marker = rr[2] is None
                        garbage = gc and o not in graphs[j][1]
                        if rt > T or not (later_le_T or garbage
                                          or is_marker and rt <= T):
                            bad('only', '%s:removed-%s' % (
                                tag, 'after-T' if rt > T else 'current-at-T'),
                                dict(pack=label, gc=gc, oid=o, tid=rt))
                # reopen: same answers, file well formed
                if w.flavor == 'F':
                    pw.storage.close()
                    pw.open()
                    obs2 = battery.observe(pw.storage, oids, tids, w.flavor,
                                           iter_level=0)
                    res.clause('C07.reopen')
                    # identical answers; lastTransaction may fall back to
                    # the newest remaining transaction if the newest one
                    # held only garbage
                    o1 = dict(obs1)
                    o2 = dict(obs2)
                    lt1 = o1.pop(('lastTransaction',))
                    lt2 = o2.pop(('lastTransaction',))
                    if o1 == o2 and lt1 != lt2:
                        it = obs2[('iterator', None, None)]
                        newest = it[-1][0] if it else Z64
                        if lt2 != newest or lt2 > lt1:
                            o2[('lastTransaction',)] = lt2
                            o1[('lastTransaction',)] = lt1
                    if o1 != o2:
                        q = [k for k in o1 if o1[k] != o2.get(k)][0]
                        bad('reopen', '%s:%s' % (tag, q[0]),
                            dict(pack=label, gc=gc, query=q,
                                 packed=repr(obs1[q])[:300],
                                 reopened=repr(obs2.get(q))[:300]))
                        continue
                    with open(pw.path, 'rb') as f:
                        data = f.read()
                    try:
                        fsparse.parse(data, strict=True)
                    except fsparse.FormatError as e:
                        bad('reopen', '%s:file:%s' % (
                            tag, str(e).split(' at ')[0][:40]),
                            dict(pack=label, gc=gc, error=str(e)))
                        continue
                # idempotence: the same pack again, and an earlier one
                for t2, lab2 in ((t, 'same'), (t - 1.0, 'earlier')):
                    env.CLOCK.now += 1
                    r = do_pack(pw.storage, t2, gc)
                    obs3 = battery.observe(pw.storage, oids, tids, w.flavor,
                                           iter_level=0)
                    res.clause('C07.idem')
                    obs3[('lastTransaction',)] = obs1[('lastTransaction',)]
                    # judged by what the property pins down for this time
                    x1 = restricted(obs1, since, cur_at_T, T, after)
                    x3 = restricted(obs3, since, cur_at_T, T, after)
                    if lab2 == 'earlier' and j >= 1:
                        # judged by what a pack to that earlier time pins
                        # what both the first pack (to T) and a pack to the
                        # earlier time pin down
                        s2, c2 = pinned(m, graphs, oids, tids, j - 1, gc)
                        sb = {o: max(since[o], s2[o]) for o in since
                              if o in s2}
                        x1 = restricted(obs1, sb, cur_at_T, T, after)
                        x3 = restricted(obs3, sb, cur_at_T, T, after)
                    if x3 != x1:
                        obs1, obs3_, q = x1, x3, None
                        q = [k for k in x1 if x1[k] != x3.get(k)][0]
                        bad('idem', '%s:%s:%s' % (
                            tag, lab2, q if isinstance(q, str) else q[0]),
                            dict(pack=label, gc=gc, second=lab2, query=q,
                                 first=repr(x1[q])[:300],
                                 second_result=repr(x3.get(q))[:300]))
                        break
                    if False:
                        q = [k for k in obs1 if obs1[k] != obs3.get(k)][0]
                        bad('idem', '%s:%s:%s' % (tag, lab2, q[0]),
                            dict(pack=label, gc=gc, second=lab2, query=q,
                                 first=repr(obs1[q])[:300],
                                 second_result=repr(obs3.get(q))[:300]))
                        break
                # the next commit after the pack, with a clock that has not
                # moved since the history's last commit: its id is later
                # than the one lastTransaction() reports (also when the
                # pack removed the newest transaction as garbage)
                res.clause('C07.tids')
                lt_before = call(pw.storage.lastTransaction)
                cur = call(pw.storage.load, p64(ROOT))
                if not isinstance(cur, Exc) and tids:
                    from persistent.TimeStamp import TimeStamp
                    env.CLOCK.now = TimeStamp(tids[-1]).timeTime()
                    tx = world.TMD(b'after', b'pack')
                    r = call(lambda: (
                        pw.storage.tpc_begin(tx),
                        pw.storage.store(p64(ROOT), cur[1], cur[0], '', tx),
                        pw.storage.tpc_vote(tx),
                        pw.storage.tpc_finish(tx)))
                    if isinstance(r, Exc):
                        call(pw.storage.tpc_abort, tx)
                        bad('tids', '%s:commit-after-pack:%s' % (tag, r.name),
                            dict(pack=label, gc=gc, error=repr(r)))
                    elif not r[3] > lt_before:
                        # (later than what lastTransaction() said; an id
                        # that went with a removed transaction and that a
                        # reopened storage cannot know is not compared)
                        bad('tids', '%s:commit-after-pack:id-not-later' % tag,
                            dict(pack=label, gc=gc, new=r[3],
                                 newest_before=tids[-1],
                                 last_transaction=lt_before))
            finally:
                pw.close()
            # differential undo of every transaction after T
            if w.flavor != 'F' or not cfg.get('undo', True):
                continue
            from base64 import encodebytes
            # ... and of the newest transaction at or before T with an id
            # taken before the pack: refused, or (a pack that removed
            # nothing leaves it undoable) the same effect as without pack
            cands = [(ut, False) for ut in after]
            if j >= 2:
                cands.append((tids[j - 1], True))
            for ut, stale in cands:
                if m.txn_by_tid(ut).recs and \
                        m.txn_by_tid(ut).recs[0].oid == p64(ROOT) and \
                        ut == tids[0]:
                    continue
                outs = []
                for packed in (False, True):
                    uw = build(cfg, hist, spec)
                    try:
                        env.CLOCK.now = max(env.CLOCK.now, t) + 1
                        if packed:
                            do_pack(uw.storage, t, gc)
                        env.CLOCK.now += 1
                        txn = world.TMD(b'', b'undo')
                        r = call(uw.storage.tpc_begin, txn)
                        r = call(uw.storage.undo, encodebytes(ut).rstrip(),
                                 txn)
                        if isinstance(r, Exc):
                            call(uw.storage.tpc_abort, txn)
                            outs.append(('refused', r.name))
                        else:
                            call(uw.storage.tpc_vote, txn)
                            call(uw.storage.tpc_finish, txn)
                            cur = {}
                            todo = [p64(ROOT)]
                            while todo:
                                o = todo.pop()
                                if o in cur:
                                    continue
                                x = call(uw.storage.load, o)
                                cur[o] = x if isinstance(x, Exc) else x[0]
                                if not isinstance(x, Exc):
                                    dd = hclasses.decode(x[0])
                                    todo += list(dd[2]) if dd else []
                            outs.append(('ok', cur))
                    finally:
                        uw.close()
                n += 1
                res.clause('C07.undo')
                if stale and outs[1][0] == 'refused':
                    continue
                # objects that the pack was free to remove are not compared
                if outs[0][0] == 'ok' and outs[1][0] == 'ok':
                    since, _ = pinned(m, graphs, oids, tids, j, gc)
                    both = set(outs[0][1]) & set(outs[1][1])
                    outs = [('ok', {o: v for o, v in x[1].items()
                                    if o in since and o in both})
                            for x in outs]
                if outs[0] != outs[1]:
                    cls = set()
                    if outs[0][0] == 'ok' and outs[1][0] == 'ok':
                        for o in outs[0][1]:
                            if outs[0][1][o] == outs[1][1].get(o):
                                continue
                            at = [x for x in m.recs(o) if x.tid <= T]
                            if at and at[-1].resolve() is None:
                                cls.add('uncreated-at-T')
                            elif since.get(o, T) != T:
                                cls.add('unreachable-at-T-written-later')
                            else:
                                cls.add('plain')
                    bad('undo', '%s%s:%s->%s%s' % (
                        tag, ':packed-transaction' if stale else '',
                        outs[0][0], outs[1][0],
                        ':' + '+'.join(sorted(cls)) if cls else ''),
                        dict(pack=label, gc=gc, undo_tid=ut,
                             unpacked=repr(outs[0])[:300],
                             packed=repr(outs[1])[:300]))
    if hist:
        res.outcome(w.outcomes[-1])
    return n, len(tids) >= 3, viol


def dbpack_task():
    """DB.pack(t, days): the time handed to the storage is t (default: now)
    minus days - for every combination of the two arguments, on both
    packable storages; and the pack the storage then does is the one a
    direct storage.pack(that time) does (same file)."""
    import transaction
    from mc import schedx
    env.install()
    res = schedx._new_res()
    seen = set()
    for kind in ('F', 'M'):
        for t_given in (None, 'T'):
            for days in (0, 1, 0.5, 3):
                env.reset_globals()
                d = env.new_dir('dp')
                FS = env.mod('ZODB.FileStorage.FileStorage').FileStorage
                MS = env.mod('ZODB.MappingStorage').MappingStorage
                st = FS(os.path.join(d, 'Data.fs')) if kind == 'F' else MS()
                db = env.mod('ZODB.DB').DB(st)
                try:
                    tm = transaction.TransactionManager()
                    c = db.open(tm)
                    for i in range(3):
                        env.CLOCK.now += 86400
                        c.root()['k'] = i
                        tm.commit()
                    c.close()
                    env.CLOCK.now += 86400
                    T = env.CLOCK.now - 3600.0
                    seen_t = []
                    orig = st.pack

                    def spy(t, referencesf, *a, **k):
                        seen_t.append(t)
                        return orig(t, referencesf, *a, **k)
                    st.pack = spy
                    kw = dict(days=days)
                    if t_given:
                        kw['t'] = T
                    r = call(db.pack, **kw)
                    want = (T if t_given else env.CLOCK.now) - days * 86400
                    res['cov']['evaluations'] += 1
                    res['cov']['states'] += 1
                    res['cov']['traces_validated_against_impl'] += 1
                    res['cov']['distinct_nontrivial'] += 1
                    res['outcomes']['db-pack'] = 1
                    if isinstance(r, Exc) or seen_t != [want]:
                        fs = 'C07.dbpack:%s:%s' % (
                            kind, 'error' if isinstance(r, Exc)
                            else 'pack-time')
                        if fs not in seen:
                            seen.add(fs)
                            res['violations'].append((
                                'C07.dbpack', fs, dict(dbpack=dict(
                                    kind=kind, t=bool(t_given), days=days)),
                                dict(expected=want, got=repr(seen_t),
                                     result=repr(r)[:100]), 1))
                finally:
                    try:
                        db.close()
                    except Exception:
                        pass
                    env.rm_dir(d)
    return res


def run(rep, tier, seed, workers):
    if tier == 'quick':
        plan = [dict(prop='C07', kind='F', nobj=2, depth=3,
                     pack_empty_first=1),
                dict(prop='C07', kind='M', nobj=2, depth=2, undo=False,
                     pack_empty_first=1),
                dict(prop='C07', kind='F', nobj=2, depth=4),
                dict(prop='C07', kind='M', nobj=2, depth=4, undo=False),
                dict(prop='C07', kind='F', nobj=2, depth=4, start=CHAIN,
                     nmod=2),
                dict(prop='C07', kind='F', nobj=2, depth=2, start=DOUBLE)]
    else:
        plan = [dict(prop='C07', kind='F', nobj=2, depth=4,
                     pack_empty_first=1),
                dict(prop='C07', kind='M', nobj=2, depth=3, undo=False,
                     pack_empty_first=1),
                dict(prop='C07', kind='F', nobj=3, depth=5, selfloop=True),
                dict(prop='C07', kind='M', nobj=3, depth=5, undo=False,
                     selfloop=True),
                dict(prop='C07', kind='F', nobj=3, depth=5, start=CHAIN,
                     nmod=2),
                dict(prop='C07', kind='F', nobj=2, depth=4, start=DOUBLE)]
    rep.rule = (
        'for every history over {create linked / as garbage, link, unlink '
        '(cycles allowed), modify, undo} starting from a root: pack(T, gc) '
        'for every T in {before first, at each tid, after last} x gc on/off '
        'on a fresh replay; compared with the unpacked storage: loads / '
        'loadBefore / loadSerial after T of every object reachable in any '
        'state from T on, transactions after T, undo log; removed revisions '
        'must be superseded at T or garbage at T; reopen; second pack same / '
        'earlier; undo of every later transaction on packed vs unpacked '
        'copy; DB.pack(t, days) for every combination of its arguments hands '
        't - days to the storage; evaluations = packs + undo pairs; '
        'non-trivial = history with '
        'at least three transactions')
    states = 0
    for cfg in plan:
        depth = cfg.pop('depth')
        fps = seqx.explore(rep, MOD, cfg, depth, workers, seed, split=3)
        states += len(fps)
        rep.bounds['%s depth (after %s)' % (
            cfg['kind'], 'root->1->2, two modifications of 1 and their '
            'undo in one transaction' if cfg.get('start') == DOUBLE else
            'root->1->2' if cfg.get('start') else
            'pack of the empty storage + root creation'
            if cfg.get('pack_empty_first') else 'root creation')] = depth
        rep.bounds['%s objects' % cfg['kind']] = cfg['nobj'] + 1
    from mc import par
    before = rep.cov.get('states', 0)
    par.run_tasks([(MOD, 'dbpack_task', ())], workers, rep, seed)
    rep.cov['states'] = states + rep.cov.get('states', 0) - before
    rep.assumptions = [
        'pack times between two tids behave like the earlier tid (the '
        'packer compares tid > packtime), so only tid-valued times are used',
        'a pack that raises a storage error is "cannot complete": counted, '
        'its effects are then checked like any other outcome']


def replay_dbpack(w):
    r = dbpack_task()
    return w['signature'] not in {v[1] for v in r['violations']}


def replay(w):
    if 'dbpack' in w['witness']:
        return replay_dbpack(w)
    viol = seqx.replay_history(MOD, w['witness'])
    for v in viol:
        print(v)
    sigs = {'C07.%s:%s' % (c, s) for c, s, d in viol}
    return w['signature'] not in sigs
