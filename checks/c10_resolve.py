"""C10: conflict resolution stores exactly the class's three-way merge.

Enumerated scenarios on real connections: an object of every class kind
(scripted recording resolver in three modes, wrong-arity resolver, no
resolver, class not importable at resolution time) whose state holds
references in every format (ordinary, bare-oid, weak, cross-database), two
and three stale writers in every commit order, on FileStorage and two
DemoStorage layerings; plus sequences of conflicts on the same class (a
failing resolution followed by a mergeable one).  Checked: the arguments the
resolver saw, the stored record (value and every reference, loaded from a
fresh connection), the writer's copy being a ghost that reads the merged
state, and for every failing kind a conflict error with nothing stored.
"""
import itertools
import os
import sys
import types

import transaction

from mc import env, hclasses, par, schedx
from mc.battery import Exc, call

MOD = 'checks.c10_resolve'
KINDS = ('F', 'DMM', 'DFM')
CLASSES = ('CR-merge', 'CR-shared', 'CR-conflict', 'CR-error', 'CRarity', 'P',
           'X')
REFSETS = ((), ('plain',), ('bare',), ('weak',), ('xdb',), ('weakxdb',),
           ('plain', 'bare', 'weak', 'xdb'))


def mkdbs(kind, d, base_prep=None):
    FS = env.mod('ZODB.FileStorage.FileStorage').FileStorage
    MS = env.mod('ZODB.MappingStorage').MappingStorage
    DS = env.mod('ZODB.DemoStorage').DemoStorage
    DB = env.mod('ZODB.DB').DB
    if kind == 'F':
        st = FS(os.path.join(d, 'Data.fs'))
    elif kind == 'DMM':
        st = DS(base=MS('b'), changes=MS('c'))
    elif kind == 'DMF':
        st = DS(base=MS('b'), changes=FS(os.path.join(d, 'Changes.fs')))
    elif kind in ('HF', 'HFb', 'HBF'):
        # a wrapper that transforms the records (ZODB's own hex wrapper, the
        # stand-in for compression / encryption) around a FileStorage, a
        # FileStorage with a blob directory, and the BlobStorage proxy
        HS = env.mod('ZODB.tests.hexstorage').HexStorage
        if kind == 'HF':
            inner = FS(os.path.join(d, 'Data.fs'))
        elif kind == 'HFb':
            inner = FS(os.path.join(d, 'Data.fs'),
                       blob_dir=os.path.join(d, 'blobs'))
        else:
            inner = env.mod('ZODB.blob').BlobStorage(
                os.path.join(d, 'blobs'), FS(os.path.join(d, 'Data.fs')))
        st = HS(inner)
    else:
        if base_prep is not None:
            # the history that the writers start from is in the base layer
            db0 = DB(FS(os.path.join(d, 'Data.fs')))
            base_prep(db0)
            db0.close()
        st = DS(base=FS(os.path.join(d, 'Data.fs')), changes=MS('c'))
    dbs = {}
    db = DB(st, databases=dbs, database_name='main')
    other = DB(MS('other'), databases=dbs, database_name='other')
    return db, other


_XMOD = []


def x_class():
    """A class in a module that exists only in sys.modules."""
    if not _XMOD:
        m = types.ModuleType('mc_transient_x')
        src = ('from persistent import Persistent\n'
               'class XC(Persistent):\n'
               '    def _p_resolveConflict(self, old, committed, new):\n'
               '        return new\n')
        exec(src, m.__dict__)
        _XMOD.append(m)
    sys.modules['mc_transient_x'] = _XMOD[0]
    return _XMOD[0].XC


def make_obj(cls):
    if cls == 'CR-shared':
        o = hclasses.CRS()
        o.day = hclasses.SHARED_DAY
        o.mode = 'merge'
    elif cls.startswith('CR-'):
        o = hclasses.CR()
        o.mode = cls[3:]
    elif cls == 'CRarity':
        o = hclasses.CRarity()
        o.mode = None
    elif cls == 'P':
        o = hclasses.P()
        o.mode = None
    else:
        o = x_class()()
        o.mode = None
    o.v = 0
    o.refs = []
    return o


def add_refs(conn, o, refset):
    """Targets of each reference format; returns expected (oid, db, weak)."""
    from persistent.wref import WeakRef
    root = conn.root()
    exp = []
    for r in refset:
        if r == 'plain':
            t = hclasses.P()
            t.v = 'plain'
            root['t_plain'] = t
            o.refs.append(t)
        elif r == 'bare':
            t = hclasses.NA()
            t.v = 'bare'
            root['t_bare'] = t
            o.refs.append(t)
        elif r == 'weak':
            t = hclasses.P()
            t.v = 'weak'
            root['t_weak'] = t
            o.refs.append(WeakRef(t))
        elif r == 'xdb':
            oc = conn.get_connection('other')
            t = hclasses.P()
            t.v = 'xdb'
            oc.root()['t_xdb'] = t
            oc.add(t)
            o.refs.append(t)
        elif r == 'weakxdb':
            oc = conn.get_connection('other')
            t = hclasses.P()
            t.v = 'weakxdb'
            oc.root()['t_wx'] = t
            oc.add(t)
            o.refs.append(WeakRef(t))
        exp.append(r)
    return exp


def ref_view(x):
    """(kind-independent) view of a loaded reference."""
    from persistent.wref import WeakRef
    if isinstance(x, WeakRef):
        t = x()
        return ('weak', x.oid, getattr(x, 'database_name', None) or 'main',
                getattr(t, 'v', None))
    return ('strong', x._p_oid, x._p_jar.db().database_name,
            getattr(x, 'v', None))


def _undo_last(db):
    from base64 import encodebytes
    tmu = transaction.TransactionManager()
    env.CLOCK.now += 1
    db.undo(encodebytes(db.storage.lastTransaction()).rstrip(), tmu.get())
    tmu.commit()


def scenario(kind, cls, refset, nwriters, order, prelude='plain',
             touch=False):
    """One scenario; returns (outcome, violations).

    prelude: how the revisions the conflict is about came to be --
    'plain' (ordinary commits), 'undo-base' (the revision every writer
    starts from was written by a transactional undo, i.e. is a record
    without a pickle of its own), 'undo-committed' (the revision committed
    under the writers' feet was written by an undo)."""
    env.reset_globals()
    del hclasses.CR_LOG[:]
    viol = []
    d = env.new_dir('cr')
    CE = env.mod('ZODB.POSException').ConflictError
    wit = dict(kind=kind, cls=cls, refs=list(refset), writers=nwriters,
               order=list(order))
    if prelude != 'plain':
        wit['prelude'] = prelude
    if touch:
        # the last writer stores the state it started from (a "touch"):
        # still a conflict, still the class's resolver that decides
        wit['touch'] = True

    def bad(c, s, det):
        viol.append((c, '%s%s:%s' % ('touch:' if touch else '',
                                     s if prelude == 'plain' else
                                     prelude + ':' + s, cls), det))
    want = {}

    def create(db):
        tm0 = transaction.TransactionManager()
        c0 = db.open(tm0)
        o = make_obj(cls)
        c0.root()['o'] = o
        add_refs(c0, o, refset)
        env.CLOCK.now += 1
        tm0.commit()
        if prelude != 'plain':
            o.v = 7
            env.CLOCK.now += 1
            tm0.commit()
        if prelude == 'undo-base':
            _undo_last(db)
        c0.close()
    db = other = None
    try:
        db, other = mkdbs(kind, d, create if kind == 'DFM' and
                          prelude != 'plain' else None)
        if cls == 'X':
            # resolution happens where the class cannot be imported (as on a
            # storage server): hide the module for the duration of the call
            st = db.storage
            orig = st.tryToResolveConflict

            def hidden(*a, **k):
                sys.modules.pop('mc_transient_x', None)
                env.mod('ZODB.ConflictResolution')._class_cache.clear()
                try:
                    return orig(*a, **k)
                finally:
                    x_class()
            st.tryToResolveConflict = hidden
        if not (kind == 'DFM' and prelude != 'plain'):
            create(db)
        tm0 = transaction.TransactionManager()
        c0 = db.open(tm0)
        want_refs = [ref_view(x) for x in c0.root()['o'].refs]
        tm0.abort()
        c0.close()
        # every writer loads the same base revision
        writers = []
        for i in range(nwriters):
            tm = transaction.TransactionManager()
            c = db.open(tm)
            obj = c.root()['o']
            obj.v
            writers.append((tm, c, obj, 0 if touch and i == nwriters - 1
                            else 10 ** i))
        base_v = 0
        committed_v = 0
        outcomes = []
        first = True
        if prelude == 'undo-committed':
            # the writers have loaded v=7; the commit under their feet is
            # the undo of that change
            base_v = 7
            _undo_last(db)
            committed_v = 0
            first = False
        for wi in order:
            tm, c, obj, inc = writers[wi]
            obj.v = obj.v + inc
            env.CLOCK.now += 1
            nlog = len(hclasses.CR_LOG)
            try:
                tm.commit()
                out = 'ok'
            except CE:
                tm.abort()
                out = 'conflict'
            except Exception as e:      # noqa: B902
                tm.abort()
                out = 'error:' + type(e).__name__
            outcomes.append(out)
            resolvable = cls in ('CR-merge', 'CR-shared')
            if first:
                if out != 'ok':
                    bad('error', 'first-commit-%s' % out, dict(wit))
                    break
                committed_v = inc
                first = False
                continue
            # a stale writer
            if resolvable:
                if out != 'ok':
                    bad('stored', 'mergeable-commit-%s' % out.split(':')[0],
                        dict(wit, outcome=out))
                    break
                merged = committed_v + inc
                # the resolver saw (old, committed, new)
                if len(hclasses.CR_LOG) != nlog + 1:
                    bad('args', 'resolver-calls', dict(
                        wit, calls=len(hclasses.CR_LOG) - nlog))
                else:
                    old, com, new = hclasses.CR_LOG[-1]
                    if (old[0], com[0], new[0]) != (base_v, committed_v,
                                                    base_v + inc):
                        bad('args', 'values', dict(
                            wit, expected=(base_v, committed_v, base_v + inc),
                            got=(old[0], com[0], new[0])))
                    exp_sem = tuple((r[1], None if r[2] == 'main' else r[2],
                                     r[0] == 'weak') for r in want_refs)
                    for nm, st in (('old', old), ('committed', com),
                                   ('new', new)):
                        if st[1] != exp_sem:
                            bad('args', 'references-%s' % nm, dict(
                                wit, expected=exp_sem, got=st[1]))
                if cls == 'CR-shared' and hclasses.CRS_SEEN[-1] != (
                        repr(hclasses.SHARED_DAY),) * 3:
                    bad('args', 'shared-object', dict(
                        wit, got=hclasses.CRS_SEEN[-1]))
                # the writer's copy is a ghost and reads the merged state
                if obj._p_changed is not None:
                    bad('reread', 'not-a-ghost', dict(
                        wit, changed=obj._p_changed))
                tm.abort()
                r = call(lambda: obj.v)
                if r != merged:
                    bad('reread', 'value', dict(wit, expected=merged,
                                                got=repr(r)))
                committed_v = merged
            else:
                if out != 'conflict':
                    bad('fail', 'unresolvable-commit-%s' % out.split(':')[0],
                        dict(wit, outcome=out))
                    break
            # what is stored, seen from a fresh connection
            tmf = transaction.TransactionManager()
            cf = db.open(tmf)
            try:
                fo = cf.root()['o']
                r = call(lambda: fo.v)
                if r != committed_v:
                    bad('stored' if resolvable else 'fail', 'value', dict(
                        wit, expected=committed_v, got=repr(r)))
                got_refs = call(lambda: [ref_view(x) for x in fo.refs])
                if got_refs != want_refs:
                    bad('stored', 'references', dict(
                        wit, expected=want_refs, got=repr(got_refs)[:300]))
                if cls == 'CR-shared':
                    r = call(lambda: fo.day)
                    if r != hclasses.SHARED_DAY:
                        bad('stored', 'shared-object', dict(
                            wit, got=repr(r)))
            finally:
                tmf.abort()
                cf.close()
        for tm, c, obj, inc in writers:
            tm.abort()
            c.close()
    except Exception as e:      # noqa: B902
        import traceback
        bad('error', 'scenario:%s' % type(e).__name__,
            dict(wit, error=repr(e)[:300],
                 where=traceback.format_exc()[-400:]))
        outcomes = ['error']
    finally:
        try:
            db.close()
            other.close()
        except Exception:
            pass
        env.rm_dir(d)
    return tuple(outcomes), [(c, s, det) for c, s, det in viol]


def undo_scenario(kind, cls, refset, shape):
    """The undo path: transactional undo of a change that has been followed
    by another change must store exactly the class's merge, or refuse and
    store nothing.  shape: 'single' (one undo), 'multi' / 'multi-rev' (two
    undos of consecutive changes to the same object in ONE transaction, in
    either order: the second merges with the still uncommitted result of
    the first)."""
    from base64 import encodebytes
    env.reset_globals()
    del hclasses.CR_LOG[:]
    viol = []
    d = env.new_dir('cr')
    UE = env.mod('ZODB.POSException').UndoError
    wit = dict(kind=kind, cls=cls, refs=list(refset), undo=shape)

    def bad(c, s, det):
        viol.append((c, 'undo-%s:%s:%s' % (shape, s, cls), det))
    db = other = None
    out = 'error'
    try:
        db, other = mkdbs(kind, d)
        if cls == 'X':
            for st in (db.storage, getattr(db.storage, 'changes', None)):
                if st is None:
                    continue

                def hidden(*a, _orig=st.tryToResolveConflict, **k):
                    sys.modules.pop('mc_transient_x', None)
                    env.mod('ZODB.ConflictResolution')._class_cache.clear()
                    try:
                        return _orig(*a, **k)
                    finally:
                        x_class()
                st.tryToResolveConflict = hidden
        tm0 = transaction.TransactionManager()
        c0 = db.open(tm0)
        o = make_obj(cls)
        c0.root()['o'] = o
        add_refs(c0, o, refset)
        env.CLOCK.now += 1
        tm0.commit()
        want_refs = [ref_view(x) for x in c0.root()['o'].refs]
        values = [7, 17] if shape == 'single' else [7, 17, 117]
        tids = []
        for v in values:
            o.v = v
            env.CLOCK.now += 1
            tm0.commit()
            tids.append(db.storage.lastTransaction())
        c0.close()
        last = db.storage.lastTransaction()
        ident = [encodebytes(t).rstrip() for t in tids]
        if shape == 'single':
            ids = [ident[0]]
            calls = [(7, 17, 0)]
            merged = 10
        elif shape == 'multi':
            ids = [ident[1], ident[0]]
            calls = [(17, 117, 7), (7, 107, 0)]
            merged = 100
        else:
            ids = [ident[0], ident[1]]
            calls = [(7, 117, 0), (17, 110, 7)]
            merged = 100
        tmu = transaction.TransactionManager()
        env.CLOCK.now += 1
        try:
            if len(ids) == 1:
                db.undo(ids[0], tmu.get())
            else:
                db.undoMultiple(ids, tmu.get())
            tmu.commit()
            out = 'ok'
        except UE:
            tmu.abort()
            out = 'refused'
        except Exception as e:      # noqa: B902
            tmu.abort()
            out = 'error:' + type(e).__name__
        resolvable = cls in ('CR-merge', 'CR-shared')
        if resolvable:
            expect_v = merged
            if out != 'ok':
                bad('stored', 'mergeable-undo-%s' % out.split(':')[0],
                    dict(wit, outcome=out))
            else:
                got = [(a[0], b[0], c[0]) for a, b, c in hclasses.CR_LOG]
                if got != calls:
                    bad('args', 'values', dict(wit, expected=calls, got=got))
                exp_sem = tuple((r[1], None if r[2] == 'main' else r[2],
                                 r[0] == 'weak') for r in want_refs)
                for trip in hclasses.CR_LOG:
                    for nm, st in zip(('old', 'committed', 'new'), trip):
                        if st[1] != exp_sem:
                            bad('args', 'references-%s' % nm, dict(
                                wit, expected=exp_sem, got=st[1]))
        else:
            expect_v = values[-1]
            if out != 'refused':
                bad('fail', 'unresolvable-undo-%s' % out.split(':')[0],
                    dict(wit, outcome=out))
            elif db.storage.lastTransaction() != last:
                bad('fail', 'refused-undo-stored-something', dict(wit))
        if out in ('ok', 'refused'):
            tmf = transaction.TransactionManager()
            cf = db.open(tmf)
            try:
                fo = cf.root()['o']
                r = call(lambda: fo.v)
                if r != expect_v:
                    bad('stored' if resolvable else 'fail', 'value', dict(
                        wit, expected=expect_v, got=repr(r)))
                got_refs = call(lambda: [ref_view(x) for x in fo.refs])
                if got_refs != want_refs:
                    bad('stored', 'references', dict(
                        wit, expected=want_refs, got=repr(got_refs)[:300]))
            finally:
                tmf.abort()
                cf.close()
    except Exception as e:      # noqa: B902
        import traceback
        bad('error', 'scenario:%s' % type(e).__name__,
            dict(wit, error=repr(e)[:300],
                 where=traceback.format_exc()[-400:]))
        out = 'error'
    finally:
        try:
            db.close()
            other.close()
        except Exception:
            pass
        env.rm_dir(d)
    return (out,), viol


UNDO_SHAPES = ('single', 'multi', 'multi-rev')


def undo_task(kind, cls):
    env.install()
    res = schedx._new_res()
    seen = set()
    for refset in REFSETS:
        for shape in UNDO_SHAPES:
            out, viol = undo_scenario(kind, cls, refset, shape)
            res['cov']['traces_validated_against_impl'] += 1
            res['cov']['states'] += 1
            res['cov']['transitions'] += 5
            res['cov']['evaluations'] += 1
            res['cov']['distinct_nontrivial'] += 1
            key = 'undo-%s:%s:%s' % (shape, cls, '/'.join(out))
            res['outcomes'][key] = res['outcomes'].get(key, 0) + 1
            for c, s, d in viol:
                fs = 'C10.%s:%s:%s' % (c, kind, s)
                if fs not in seen:
                    seen.add(fs)
                    res['violations'].append(('C10.' + c, fs, d, d, 1))
    if not res['samples']:
        res['samples'].append(dict(kind=kind, cls=cls, undo=True))
    return res


PRELUDES = (('F', 'undo-base'), ('F', 'undo-committed'),
            ('DMF', 'undo-base'), ('DMF', 'undo-committed'),
            ('DFM', 'undo-base'))
PRELUDE_REFSETS = ((), ('plain', 'bare', 'weak'))


def sequence_same_class(kind):
    """A failing resolution must not poison later mergeable conflicts on the
    same class (and vice versa), within one process."""
    viol = []
    outs = []
    for first in ('CR-conflict', 'CR-error'):
        env.reset_globals()
        o1, v1 = scenario(kind, first, (), 2, (0, 1))
        # do NOT reset the process-wide resolution caches in between
        cr = env.mod('ZODB.ConflictResolution')
        saved = dict(cr._unresolvable)
        env.reset_globals()
        cr._unresolvable.update(saved)
        keep = env.reset_globals
        try:
            env.reset_globals = lambda: None
            o2, v2 = scenario(kind, 'CR-merge', (), 2, (0, 1))
        finally:
            env.reset_globals = keep
        outs.append((o1, o2))
        viol += v1
        viol += [(c, 'after-%s:%s' % (first, s), d) for c, s, d in v2]
    return outs, viol


def task(kind, cls, refset, prelude='plain', maxw=3):
    env.install()
    res = schedx._new_res()
    seen = set()
    for nwriters in range(2, maxw + 1):
        for order in itertools.permutations(range(nwriters)):
            out, viol = scenario(kind, cls, refset, nwriters, order, prelude)
            if nwriters == 2 and prelude == 'plain':
                out2, viol2 = scenario(kind, cls, refset, nwriters, order,
                                       prelude, touch=True)
                viol = viol + viol2
                res['cov']['traces_validated_against_impl'] += 1
                res['cov']['states'] += 1
                res['cov']['evaluations'] += 1
                key2 = 'touch:%s:%s' % (cls, '/'.join(out2))
                res['outcomes'][key2] = res['outcomes'].get(key2, 0) + 1
            res['cov']['traces_validated_against_impl'] += 1
            res['cov']['states'] += 1
            res['cov']['transitions'] += nwriters
            res['cov']['evaluations'] += 1
            if 'conflict' in out or cls in ('CR-merge', 'CR-shared'):
                res['cov']['distinct_nontrivial'] += 1
            key = '%s%s:%s' % ('' if prelude == 'plain' else prelude + ':',
                               cls, '/'.join(out))
            res['outcomes'][key] = res['outcomes'].get(key, 0) + 1
            for c, s, d in viol:
                fs = 'C10.%s:%s:%s' % (c, kind, s)
                if fs not in seen:
                    seen.add(fs)
                    res['violations'].append(('C10.' + c, fs, d, d, 1))
    if not res['samples']:
        res['samples'].append(dict(kind=kind, cls=cls, refs=list(refset)))
    return res


def seq_task(kind):
    env.install()
    res = schedx._new_res()
    outs, viol = sequence_same_class(kind)
    res['cov']['traces_validated_against_impl'] += 4
    res['cov']['states'] += 4
    res['cov']['evaluations'] += 4
    res['outcomes']['sequence:%r' % (outs,)] = 1
    seen = set()
    for c, s, d in viol:
        fs = 'C10.%s:%s:%s' % (c, kind, s)
        if fs not in seen:
            seen.add(fs)
            res['violations'].append(('C10.' + c, fs, dict(
                sequence=kind), d, 1))
    return res


def run(rep, tier, seed, workers):
    rep.rule = (
        'scenarios = storage {FileStorage, DemoStorage(Mapping/Mapping), '
        'DemoStorage(Mapping/FileStorage)} x class kind {resolver: merge / '
        'raises ConflictError / raises AttributeError / wrong arity; no '
        'resolver; class not importable at resolution time} x reference set '
        '{none, ordinary, bare-oid, weak, cross-database, weak '
        'cross-database, all four} x 2..3 (thorough: 2..5) stale writers x '
        'every commit '
        'order (for 2 writers also with the last one storing the state it '
        'started from); the same with the base revision, or the revision committed '
        'under the writers, written by a transactional undo (a record '
        'without its own pickle) on FileStorage, DemoStorage(Mapping/File) '
        'and in the FileStorage base of a DemoStorage; the undo path '
        '(undo of a change followed by another change; two such undos in '
        'one transaction in both orders) for every class kind and '
        'reference set on FileStorage and DemoStorage(Mapping/File); plus '
        'failing-then-mergeable conflict sequences on one class '
        'within one process; non-trivial = scenario with at least one stale '
        'writer')
    tasks = []
    maxw = 3 if tier == 'quick' else 5
    rep.bounds['stale writers'] = maxw
    for kind in KINDS:
        for cls in CLASSES:
            refsets = REFSETS if (True or cls in (
                'CR-merge', 'P')) else REFSETS[:1] + REFSETS[-1:]
            for rs in refsets:
                tasks.append((MOD, 'task', (kind, cls, rs, 'plain', maxw)))
        tasks.append((MOD, 'seq_task', (kind,)))
    for kind in ('F', 'DMF', 'HF', 'HBF'):
        for cls in CLASSES:
            if kind[0] == 'H' and cls == 'X':
                continue    # (the harness hides X's module by wrapping the
                #             resolver of the outermost storage)
            tasks.append((MOD, 'undo_task', (kind, cls)))
    # record-transforming wrappers: the storage that resolves has to be
    # told how to read the records
    for kind in ('HF', 'HFb', 'HBF'):
        for cls in CLASSES[:-1]:
            for rs in REFSETS[:1] + REFSETS[-1:]:
                tasks.append((MOD, 'task', (kind, cls, rs, 'plain', maxw)))
    for kind, prelude in PRELUDES:
        for cls in CLASSES:
            for rs in PRELUDE_REFSETS:
                tasks.append((MOD, 'task', (kind, cls, rs, prelude, maxw)))
    par.run_tasks(tasks, workers, rep, seed)
    rep.bounds['scenario families'] = len(tasks)
    rep.assumptions = [
        'MappingStorage offers no conflict resolution and is not part of '
        'this check; longer undo histories are explored by C06']


def replay(w):
    wit = w['witness']
    if 'undo' in wit:
        out, viol = undo_scenario(wit['kind'], wit['cls'],
                                  tuple(wit['refs']), wit['undo'])
        kind = wit['kind']
    elif 'sequence' in wit:
        outs, viol = sequence_same_class(wit['sequence'])
        kind = wit['sequence']
    else:
        out, viol = scenario(wit['kind'], wit['cls'], tuple(wit['refs']),
                             wit['writers'], tuple(wit['order']),
                             wit.get('prelude', 'plain'),
                             wit.get('touch', False))
        kind = wit['kind']
    for v in viol:
        print(v)
    sigs = {'C10.%s:%s:%s' % (c, kind, s) for c, s, d in viol}
    return w['signature'] not in sigs
