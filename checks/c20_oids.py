"""C20: object ids are never issued twice or for an object that already exists.

Sequential: all histories over {new_oid, store/restore of explicit ids chosen
at byte-carry and sign boundaries, store of an issued id, abort after new_oid,
pack, reopen, DB-level add + savepoint + import} on FileStorage,
MappingStorage and two DemoStorage layerings whose random source is scripted
to aim at ids present in the base, in the changes and in the issued set.
Schedules: 2-3 threads calling new_oid (one also committing an explicit high
id), every schedule up to a preemption bound, with a line-level pass over the
allocator.
"""
import os

from mc import env, iolog, par, sched, schedx, world
from mc.battery import Exc, call, p64, u64
from mc.refmodel import Z64

MOD = 'checks.c20_oids'
EXPLICIT = [2, 255, 256, (1 << 32) - 1, (1 << 63) - 1]
KINDS = ('F', 'M', 'DMM', 'DFM')


class OidWorld:
    def __init__(self, kind):
        env.reset_globals()
        self.kind = kind
        self.dir = env.new_dir('o')
        self.path = os.path.join(self.dir, 'Data.fs')
        self.issued = set()
        self.stored = {}            # oid -> current serial
        self.violations = []
        self.nstore = 0
        FS = env.mod('ZODB.FileStorage.FileStorage').FileStorage
        MS = env.mod('ZODB.MappingStorage').MappingStorage
        DS = env.mod('ZODB.DemoStorage').DemoStorage
        self.base = None
        if kind == 'F':
            self.storage = FS(self.path)
        elif kind == 'M':
            self.storage = MS()
        else:
            self.base = FS(self.path) if kind == 'DFM' else MS('base')
            # base holds ids 1 and 5
            for o in (1, 5):
                self._commit(self.base, [(p64(o), Z64)])
            base_oids = dict(self.stored)
            self.stored = {}
            self.base_oids = base_oids
            # the demo storage's random source aims at: an id in the base,
            # then (after hits) another base id, then fresh territory
            env.RANDOM.script = [1, 5, 1, 40, 41]
            self.storage = DS(base=self.base, changes=MS('changes'))
        self.next_aim = 0

    def close(self):
        try:
            self.storage.close()
        except Exception:
            pass
        env.rm_dir(self.dir)

    def all_present(self):
        s = set(self.stored)
        if self.base is not None:
            s |= set(self.base_oids)
        return s

    def _commit(self, storage, items, restore_tid=None, abort=False):
        from mc import hclasses
        env.CLOCK.now += 1
        t = world.TMD()
        if restore_tid is not None:
            r = call(storage.tpc_begin, t, restore_tid, ' ')
        else:
            r = call(storage.tpc_begin, t)
        for oid, serial in items:
            self.nstore += 1
            data = hclasses.mkrec('P', self.nstore)
            if restore_tid is not None:
                r = call(storage.restore, oid, restore_tid, data, '', None, t)
            else:
                r = call(storage.store, oid, serial, data, '', t)
            if isinstance(r, Exc):
                call(storage.tpc_abort, t)
                return r
        if abort is True:
            return call(storage.tpc_abort, t)
        r = call(storage.tpc_vote, t)
        if isinstance(r, Exc):
            call(storage.tpc_abort, t)
            return r
        if abort == 'finish':
            # the finish fails (the callback that delivers the
            # invalidations raises): nothing has been committed
            def boom(tid):
                raise RuntimeError('scripted failure in the finish callback')
            call(storage.tpc_finish, t, boom)
            return call(storage.tpc_abort, t)
        tid = call(storage.tpc_finish, t)
        if not isinstance(tid, Exc):
            for oid, serial in items:
                self.stored[oid] = tid
        return tid

    def check_new(self, oid, how):
        if not (isinstance(oid, bytes) and len(oid) == 8):
            self.violations.append(('unique', '%s:%s:not-an-oid' % (
                self.kind, how), dict(got=repr(oid))))
            return
        if oid in self.issued:
            self.violations.append(('unique', '%s:%s:issued-twice' % (
                self.kind, how), dict(oid=oid)))
        elif oid in self.all_present():
            self.violations.append(('unique', '%s:%s:exists' % (
                self.kind, how), dict(oid=oid)))
        self.issued.add(oid)

    def enabled(self):
        ops = [('new_oid',), ('store-issued',), ('abort-new',)]
        ops += [('store', v) for v in EXPLICIT]
        if self.kind in ('F', 'M'):
            ops += [('store-alloc-inside', v) for v in EXPLICIT[1:3]]
        if self.kind == 'F':
            ops += [('restore', v) for v in EXPLICIT[1:4]]
            ops += [('reopen',), ('crash-reopen', 'index'),
                    ('crash-reopen', 'noindex')]
        if self.stored:
            ops.append(('pack',))
        if self.kind in ('DMM', 'DFM'):
            ops.append(('store-aimed',))
            # the adversary picks the allocator's next random draw: an id
            # that was issued but never committed, or one that is stored
            if self.issued - set(self.stored):
                ops.append(('aim', 'issued'))
            if self.stored:
                ops.append(('aim', 'stored'))
        ops.append(('store-issued-abort',))
        ops.append(('store-issued-finish-fail',))
        ops.append(('dbadd',))
        return ops

    def apply(self, op):
        s = self.storage
        k = op[0]
        if k == 'new_oid':
            r = call(s.new_oid)
            if isinstance(r, Exc):
                self.violations.append(('error', '%s:new_oid:%s' % (
                    self.kind, r.name), dict(got=repr(r))))
                return 'error'
            self.check_new(r, 'new_oid')
            return 'new_oid'
        if k == 'store-issued':
            free = sorted(self.issued - set(self.stored))
            if not free:
                r = call(s.new_oid)
                if isinstance(r, Exc):
                    return 'error'
                self.check_new(r, 'new_oid')
                free = [r]
            oid = free[-1]
            r = self._commit(s, [(oid, self.stored.get(oid, Z64))])
            return 'stored' if not isinstance(r, Exc) else 'store-' + r.name
        if k == 'store-issued-abort':
            # an id is issued, used in a transaction, and the transaction
            # is aborted: the id stays issued
            r = call(s.new_oid)
            if isinstance(r, Exc):
                return 'error'
            self.check_new(r, 'new_oid')
            self._commit(s, [(r, Z64)], abort=True)
            return 'store-abort'
        if k == 'store-issued-finish-fail':
            r = call(s.new_oid)
            if isinstance(r, Exc):
                return 'error'
            self.check_new(r, 'new_oid')
            self._commit(s, [(r, Z64)], abort='finish')
            return 'store-finish-fail'
        if k == 'aim':
            pool = sorted(self.issued - set(self.stored)) \
                if op[1] == 'issued' else sorted(self.stored)
            pool = [o for o in pool if u64(o) >= 1] or [p64(1)]
            env.RANDOM.script.insert(0, u64(pool[-1]))
            return 'aim'
        if k == 'store':
            oid = p64(op[1])
            if self.base is not None and oid in self.base_oids \
                    and oid not in self.stored:
                serial = self.base_oids[oid]
            else:
                serial = self.stored.get(oid, Z64)
            r = self._commit(s, [(oid, serial)])
            return 'stored' if not isinstance(r, Exc) else 'store-' + r.name
        if k == 'store-alloc-inside':
            # an explicitly chosen id is stored, and before that transaction
            # finishes somebody asks for a new id: the stored one is taken
            from mc import hclasses
            oid = p64(op[1])
            serial = self.stored.get(oid, Z64)
            env.CLOCK.now += 1
            t = world.TMD()
            r = call(lambda: (s.tpc_begin(t), s.store(
                oid, serial, hclasses.mkrec('P', 6), '', t)))
            if isinstance(r, Exc):
                call(s.tpc_abort, t)
                return 'store-' + r.name
            got = call(s.new_oid)
            if got == oid:
                self.violations.append(('unique', '%s:new_oid-inside-'
                                        'transaction:stored-there' %
                                        self.kind, dict(oid=oid)))
            elif not isinstance(got, Exc):
                self.check_new(got, 'new_oid')
            r = call(lambda: (s.tpc_vote(t), s.tpc_finish(t)))
            if isinstance(r, Exc):
                call(s.tpc_abort, t)
                return 'store-' + r.name
            self.stored[oid] = r[1]
            return 'stored'
        if k == 'store-aimed':
            # store exactly the id the demo storage would try next
            oid = p64(getattr(s, '_next_oid', 77))
            if oid in self.all_present():
                return 'noop'
            r = self._commit(s, [(oid, Z64)])
            return 'stored' if not isinstance(r, Exc) else 'store-' + r.name
        if k == 'restore':
            oid = p64(op[1])
            from persistent.TimeStamp import TimeStamp
            import time
            env.CLOCK.now += 1
            t = env.CLOCK.now
            tid = TimeStamp(*time.gmtime(t)[:5] + (t % 60,)).raw()
            last = call(s.lastTransaction)
            if not isinstance(last, Exc) and tid <= last:
                tid = p64(u64(last) + 1)
            r = self._commit(s, [(oid, None)], restore_tid=tid)
            return 'restored' if not isinstance(r, Exc) else 'restore-' + \
                r.name
        if k == 'abort-new':
            env.CLOCK.now += 1
            t = world.TMD()
            call(s.tpc_begin, t)
            r = call(s.new_oid)
            if not isinstance(r, Exc):
                self.check_new(r, 'new_oid-in-aborted-txn')
            call(s.tpc_abort, t)
            return 'abort-new'
        if k == 'pack':
            from ZODB.serialize import referencesf
            env.CLOCK.now += 1
            call(s.pack, env.CLOCK.now, referencesf, gc=False)
            return 'pack'
        if k == 'reopen':
            s.close()
            FS = env.mod('ZODB.FileStorage.FileStorage').FileStorage
            self.storage = FS(self.path)
            self.issued = set()     # a new session
            return 'reopen'
        if k == 'crash-reopen':
            # the process dies between vote and finish (with or without a
            # saved index), the next session finds the unfinished tail
            from mc import hclasses
            env.CLOCK.now += 1
            t = world.TMD()
            r = call(lambda: (s.tpc_begin(t), s.store(
                s.new_oid(), Z64, hclasses.mkrec('P', 5), '', t),
                s.tpc_vote(t)))
            import shutil
            crashed = self.path + '.crashed'
            shutil.copyfile(self.path, crashed)
            call(s.tpc_abort, t)
            s.close()
            os.replace(crashed, self.path)
            if op[1] == 'noindex' and os.path.exists(self.path + '.index'):
                os.remove(self.path + '.index')
            FS = env.mod('ZODB.FileStorage.FileStorage').FileStorage
            self.storage = FS(self.path)
            self.issued = set()     # a new session
            return 'crash-reopen'
        if k == 'dbadd':
            return self.dbadd()
        raise ValueError(op)

    def dbadd(self):
        """Connection-level allocation: add, savepoint, add, export/import."""
        import transaction
        from mc import hclasses
        DB = env.mod('ZODB.DB').DB
        db = DB(self.storage)
        tm = transaction.TransactionManager()
        c = db.open(tm)
        try:
            env.CLOCK.now += 1
            root = c.root()
            pre = set(self.all_present()) | self.issued
            a, b, d = hclasses.P(), hclasses.P(), hclasses.P()
            a.v = b.v = d.v = 1
            a.child = hclasses.P()
            c.add(a)
            c.add(b)
            tm.savepoint()
            c.add(d)
            root['a%d' % len(root)] = a
            root['b%d' % len(root)] = b
            root['d%d' % len(root)] = d
            tm.commit()
            # export a and import it again: copies get new ids
            f = os.path.join(self.dir, 'exp.zexp')
            c.exportFile(a._p_oid, f)
            env.CLOCK.now += 1
            copy = c.importFile(f)
            root['i%d' % len(root)] = copy
            tm.commit()
            os.unlink(f)
            objs = [a, b, d, a.child, copy, copy.child]
            oids = [o._p_oid for o in objs]
            if len(set(oids)) != len(oids):
                self.violations.append(('unique', '%s:dbadd:duplicate' %
                                        self.kind, dict(oids=oids)))
            for o in oids:
                if o in pre:
                    self.violations.append((
                        'unique', '%s:dbadd:%s' % (
                            self.kind, 'issued-twice' if o in self.issued
                            else 'exists'), dict(oid=o)))
            # record everything the DB stored (incl. the root object)
            it = self.storage.iterator()
            for t in it:
                for r in t:
                    self.stored[r.oid] = r.tid
            getattr(it, 'close', lambda: None)()
            for o in oids:
                self.issued.add(o)
            self.issued.add(p64(0))
            return 'dbadd'
        except Exception as e:      # noqa: B902
            tm.abort()
            CE = env.mod('ZODB.POSException').ConflictError
            if isinstance(e, CE):
                # committing a fresh object conflicted: its id existed
                self.violations.append(('unique', '%s:dbadd:conflict' %
                                        self.kind, dict(error=repr(e)[:200])))
            else:
                self.violations.append(('error', '%s:dbadd:%s' % (
                    self.kind, type(e).__name__), dict(error=repr(e)[:200])))
            return 'dbadd-error'
        finally:
            c.close()


def build(kind, hist):
    w = OidWorld(kind)
    for op in hist:
        w.apply(tuple(op))
    return w


def subtree(kind, prefix, depth):
    env.install()
    res = schedx._new_res()
    seen = set()

    def dfs(hist):
        w = build(kind, hist)
        try:
            res['cov']['traces_validated_against_impl'] += 1
            res['cov']['transitions'] += len(hist)
            res['cov']['evaluations'] += len(w.issued)
            res['cov']['states'] += 1
            if len(w.issued) >= 2:
                res['cov']['distinct_nontrivial'] += 1
            if w.violations:
                for c, s, d in w.violations:
                    fsig = 'C20.%s:%s' % (c, s)
                    if fsig not in seen:
                        seen.add(fsig)
                        res['violations'].append((
                            'C20.' + c, fsig,
                            dict(kind=kind, history=[list(o) for o in hist]),
                            d, 1))
                return
            if len(hist) >= depth:
                if len(res['samples']) < 1:
                    res['samples'].append(dict(
                        kind=kind, history=[list(o) for o in hist],
                        issued=sorted(x.hex() for x in w.issued)))
                return
            ops = w.enabled()
        finally:
            w.close()
        for op in ops:
            dfs(hist + [op])
    dfs([tuple(o) for o in prefix])
    return res


# ------------------------------------------------------------ schedules

def run_one(cfg, choices):
    sched.install_locks()
    env.reset_globals()
    d = env.new_dir('o')
    FS = env.mod('ZODB.FileStorage.FileStorage').FileStorage
    MS = env.mod('ZODB.MappingStorage').MappingStorage
    DS = env.mod('ZODB.DemoStorage').DemoStorage
    kind = cfg['kind']
    if kind == 'F':
        st = FS(os.path.join(d, 'Data.fs'))
    elif kind == 'M':
        st = MS()
    else:
        env.RANDOM.script = [9, 9, 9]
        base = MS('b')
        if cfg.get('committer') == 'issued':
            # the id after the allocator's start exists already (in the
            # base), and the random source keeps drawing the id the
            # committer is about to commit
            from mc import hclasses
            txn0 = world.TMD()
            base.tpc_begin(txn0)
            base.store(p64(10), Z64, hclasses.mkrec('P', 0), '', txn0)
            base.tpc_vote(txn0)
            base.tpc_finish(txn0)
            env.RANDOM.script = [9] * 8
        st = DS(base=base, changes=MS('c'))
    got = []

    def alloc(s, t):
        for i in range(2):
            got.append((t.id, st.new_oid()))

    def committer(s, t):
        from mc import hclasses
        txn = world.TMD()
        how = cfg.get('committer')
        if how == 'issued':
            # commits a new object under an id it was issued
            oid = st.new_oid()
            got.append((t.id, oid))
        else:
            # an id of its own choosing (a copy tool): far above / just
            # above the allocator's mark
            oid = p64(2 if how == 'low' else 100)
        st.tpc_begin(txn)
        st.store(oid, Z64, hclasses.mkrec('P', 1), '', txn)
        st.tpc_vote(txn)
        st.tpc_finish(txn)
        got.append((t.id, st.new_oid()))

    bodies = [alloc] * cfg['allocators'] + ([committer]
                                            if cfg.get('committer') else [])
    tf = None
    if cfg.get('lines'):
        tf = {(env.mod('ZODB.BaseStorage').__file__, 'new_oid'),
              (env.mod('ZODB.BaseStorage').__file__, 'set_max_oid'),
              (env.mod('ZODB.MappingStorage').__file__, 'new_oid'),
              (env.mod('ZODB.DemoStorage').__file__, 'new_oid'),
              (env.mod('ZODB.utils').__file__, '__call__')}
    S = sched.Scheduler(bodies, choices, trace_funcs=tf)
    S.run()
    w = dict(dir=d, storage=st, got=got)
    return S, w


def cleanup(w):
    try:
        w['storage'].close()
    except Exception:
        pass
    env.rm_dir(w['dir'])


def judge(cfg, S, w):
    viol = []
    for t in S.threads:
        if t.outcome and t.outcome[0] == 'exc':
            e = t.outcome[1]
            viol.append(('error', 'thread:%s' % type(e).__name__,
                         dict(error=repr(e)[:200])))
    oids = [o for _, o in w['got']]
    if len(set(oids)) != len(oids):
        viol.append(('unique', '%s:threads:issued-twice' % cfg['kind'],
                     dict(got=w['got'])))
    if cfg.get("committer") == 1 and p64(100) in oids:
        viol.append(('unique', '%s:threads:exists' % cfg['kind'],
                     dict(got=w['got'])))
    return repr(tuple(w['got'])), viol


def run(rep, tier, seed, workers):
    depth = 4 if tier == 'quick' else 5
    rep.rule = (
        'sequential: all histories up to the depth over new_oid, store of an '
        'issued id, store / restore of explicit ids {2, 255, 256, 2^32-1, '
        '2^63-1}, abort after new_oid, pack, reopen, DB-level add + '
        'savepoint + export/import; demo storages get a scripted random '
        'source aimed at ids in the base; schedules: 2-3 allocator threads '
        '(+ a committer of an explicit id far above / just above the '
        'allocator\'s mark, or - demo storage - of an issued id that the '
        'random source keeps drawing) to the preemption bound, with a '
        'line-level pass over the allocators; evaluations = ids checked; '
        'non-trivial = history that issued at least two ids')
    tasks = []
    for kind in KINDS:
        w = OidWorld(kind)
        ops = w.enabled()
        w.close()
        tasks.append((MOD, 'subtree', (kind, [], 0)))
        for op in ops:
            tasks.append((MOD, 'subtree', (kind, [list(op)], depth)))
        rep.bounds['%s depth' % kind] = depth
    par.run_tasks(tasks, workers, rep, seed)
    bound = 2 if tier == 'quick' else 3
    plan = []
    for kind in ('F', 'M', 'D'):
        plan.append((dict(prop='C20', kind=kind, name='alloc2',
                          allocators=2), bound + 1))
        plan.append((dict(prop='C20', kind=kind, name='alloc2+commit',
                          allocators=2, committer=1), bound))
        plan.append((dict(prop='C20', kind=kind, name='alloc2-lines',
                          allocators=2, lines=1), bound))
        # (only "never twice" is judged here: an allocator may get the
        # low id before the committer stores under it)
        plan.append((dict(prop='C20', kind=kind, name='alloc2+commit-low',
                          allocators=2, committer='low'), bound))
        if kind == 'D':
            plan.append((dict(prop='C20', kind=kind,
                              name='alloc1+commit-issued', allocators=1,
                              committer='issued'), bound))
        if tier != 'quick':
            plan.append((dict(prop='C20', kind=kind, name='alloc3',
                              allocators=3), bound))
    for cfg, b in plan:
        rep.bounds['%s/%s preemptions' % (cfg['kind'], cfg['name'])] = b
    schedx.explore_many(rep, MOD, plan, workers, seed)
    rep.assumptions = ['ids issued in an earlier session but never stored '
                       'may be issued again after a reopen']


def replay(w):
    wit = w['witness']
    if 'history' in wit:
        r = subtree(wit['kind'], wit['history'], len(wit['history']))
        viol = r['violations']
    else:
        viol = schedx.replay(MOD, wit)
    for v in viol:
        print(v[1], v[3])
    return w['signature'] not in {v[1] for v in viol}
