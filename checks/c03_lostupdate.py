"""C03: no lost updates.

Write-heavy thread harnesses and step-program interleavings over a real DB on
FileStorage, MappingStorage and DemoStorage (two layerings).  Every write
stores, inside the object's state, the serial its copy was loaded from.

Oracle (from the event log and the final revision list of the storage):
chain    - every committed revision was derived from the one immediately
           before it;
conflict - a commit that wrote or declared-current an object that was not
           current fails with a conflict error; a failed commit stores
           nothing; a commit fails only if some object it depends on really
           had a newer revision;
replay   - each object's final value is the one written by the last
           successful writer in tid order;
retry    - covered by chain + conflict on programs that retry;
merge    - an object whose class merges (a bit set, every writer adds its
           own bit): every revision keeps all bits of the one before, every
           committed bit is in the final state, a failed commit's bit is
           nowhere.
"""
import itertools

from mc import dbworld, env, iolog, par, sched, schedx

MOD = 'checks.c03_lostupdate'
INF = b'\xff' * 8

WX = [('open',), ('w', 'x'), ('commit',), ('close',)]
WX_RETRY = [('open',), ('w', 'x'), ('commit',), ('w', 'x'), ('commit',),
            ('close',)]
WXY = [('open',), ('w', 'x'), ('w', 'y'), ('commit',), ('close',)]
WY2 = [('open',), ('w', 'y'), ('commit',), ('w', 'y'), ('commit',),
       ('close',)]
RCX_WY = [('open',), ('rc', 'x'), ('w', 'y'), ('commit',), ('close',)]
RCX_WY_SP = [('open',), ('rc', 'x'), ('w', 'y'), ('sp',), ('commit',),
             ('close',)]
WY_SP_RCX = [('open',), ('w', 'y'), ('sp',), ('rc', 'x'), ('commit',),
             ('close',)]
RX_WX = [('open',), ('r', 'x'), ('w', 'x'), ('commit',), ('close',)]
RCGX_WY = [('open',), ('rcg', 'x'), ('w', 'y'), ('commit',), ('close',)]
# a declared dependency that is modified tentatively and rolled back: it is
# still a dependency (without / with a savepoint that stored the change)
RCX_WX_RB_WY = [('open',), ('rc', 'x'), ('spk',), ('w', 'x'), ('rb',),
                ('w', 'y'), ('commit',), ('close',)]
RCX_WX_SP_RB_WY = [('open',), ('rc', 'x'), ('spk',), ('w', 'x'), ('sp',),
                   ('rb',), ('w', 'y'), ('commit',), ('close',)]

IK = [('open',), ('inc', 'k'), ('commit',), ('close',)]
IK_RETRY = [('open',), ('inc', 'k'), ('commit',), ('inc', 'k'), ('commit',),
            ('close',)]
IK_WX = [('open',), ('inc', 'k'), ('w', 'x'), ('commit',), ('close',)]

HARNESSES = {
    'wx|wx': [WX, WX],
    'wx-retry|wx': [WX_RETRY, WX],
    'wxy|wy2': [WXY, WY2],
    'rcx-wy|wx': [RCX_WY, WX],
    'rcx-wy-sp|wx': [RCX_WY_SP, WX],
    'wy-sp-rcx|wx': [WY_SP_RCX, WX],
    'ik|ik': [IK, IK],
    'ik-retry|ik': [IK_RETRY, IK],
    'ik-wx|wx': [IK_WX, WX],
    'ik-wx|ik-wx': [IK_WX, IK_WX],
    'ik|ik|ik': [IK, IK, IK],
    'wx|wx|wx': [WX, WX, WX],
    'wxy|wy2|wx': [WXY, WY2, WX],
}

CATALOG = {
    'wx': WX, 'wx-retry': WX_RETRY, 'wxy': WXY, 'wy2': WY2,
    'rcx-wy': RCX_WY, 'rcx-wy-sp': RCX_WY_SP, 'wy-sp-rcx': WY_SP_RCX,
    'rx-wx': RX_WX, 'rcgx-wy': RCGX_WY, 'rcx-wx-rb-wy': RCX_WX_RB_WY,
    'rcx-wx-sp-rb-wy': RCX_WX_SP_RB_WY, 'ik': IK, 'ik-retry': IK_RETRY, 'ik-wx': IK_WX,
}
MERGE = ('k',)
# quick tier: the merging programs against each other and against a plain
# writer of the object they also write (thorough: every pair)
MERGE_PAIRS = {('ik', 'ik'), ('ik', 'ik-retry'), ('ik', 'ik-wx'),
               ('ik-wx', 'ik-wx'), ('ik-wx', 'wx'),
               ('rcx-wx-rb-wy', 'wx'), ('rcx-wx-sp-rb-wy', 'wx'),
               ('rcgx-wy', 'wx')}
KINDS = ('F', 'M', 'DMM', 'DFM')


def run_one(cfg, choices):
    sched.install_locks()
    iolog.READS[0] = True
    w = dbworld.DBWorld(cfg['kind'], record=cfg['kind'] in ('F', 'DFM'),
                        merge_names=MERGE)
    progs = [dbworld.Prog(w, i, [tuple(s) for s in steps])
             for i, steps in enumerate(HARNESSES[cfg['name']])]
    bodies = [(lambda s, t, p=p: p.run()) for p in progs]
    S = sched.Scheduler(bodies, choices)

    def hook(op):
        t = sched._me()
        if t is not None and not S.killed:
            S.point(t, 'io')
    if w.record:
        iolog.LOG.point_hook = hook
    S.run()
    iolog.LOG.point_hook = None
    return S, w


def cleanup(w):
    w.close()


def judge_events(w):
    viol = []
    revs = w.revisions()
    byname = {n: revs.get(o, []) for n, o in w.oids.items()}
    val2tid = {}
    for n, rl in byname.items():
        for tid, st in rl:
            val2tid[(n, st.get('v'))] = tid
    # chain
    for n, rl in byname.items():
        if n in w.merge_names:
            # a merging class: every revision keeps all bits of the one
            # before it (a merge that drops the other writer's change is a
            # lost update)
            for i in range(1, len(rl)):
                if rl[i - 1][1].get('v') & ~rl[i][1].get('v'):
                    viol.append(('merge', 'revision-lost-earlier-change',
                                 dict(obj=n, revision=rl[i][0],
                                      value=rl[i][1].get('v'),
                                      previous=rl[i - 1][1].get('v'))))
            continue
        for i in range(1, len(rl)):
            tid, st = rl[i]
            if st.get('base') != rl[i - 1][0]:
                viol.append(('chain', 'derived-from-older-revision',
                             dict(obj=n, revision=tid, base=st.get('base'),
                                  previous=rl[i - 1][0])))
    # commits
    writes, rcs, incs = {}, {}, {}
    starts = {}
    outcomes = []
    for i, ev in enumerate(w.events):
        k = ev[0]
        if k == 'write':
            d = writes.setdefault((ev[1], ev[2]), {})
            d[ev[3]] = (ev[4], ev[5])       # name -> (base, value); last wins
        elif k == 'inc':
            incs.setdefault((ev[1], ev[2]), []).append(
                (ev[3], ev[4], ev[5]))      # name, bit, serial loaded
        elif k == 'rollback':
            # writes since the savepoint never happened
            for nm in ev[3]:
                writes.get((ev[1], ev[2]), {}).pop(nm, None)
        elif k == 'readcurrent':
            rcs.setdefault((ev[1], ev[2]), {})[ev[3]] = ev[4]
        elif k == 'commit-start':
            starts[(ev[1], ev[2])] = i
        elif k in ('write-error', 'read-error'):
            viol.append(('error', '%s:%s' % (k, ev[4]), dict(event=ev)))
        elif k == 'commit-done':
            key = (ev[1], ev[2])
            for n, bit, serial in incs.get(key, ()):
                final = byname[n][-1][1].get('v') if byname[n] else 0
                if not final & bit:
                    viol.append(('merge', 'committed-change-lost',
                                 dict(txn=key, obj=n, bit=bit, final=final)))
            ws = writes.get(key, {})
            tids = {val2tid.get((n, v)) for n, (b, v) in ws.items()}
            if ws and (len(tids) != 1 or None in tids):
                viol.append(('commit', 'not-stored-under-one-tid',
                             dict(txn=key, writes=ws)))
                continue
            outcomes.append('ok')
            if not ws:
                continue
            T = tids.pop()
            # declared-current objects must have been current at T
            for n, serial in rcs.get(key, {}).items():
                before = [t for t, st in byname[n] if t < T]
                if before and before[-1] != serial:
                    viol.append(('conflict', 'readcurrent-not-current',
                                 dict(txn=key, obj=n, read=serial,
                                      current_at_commit=before[-1])))
        elif k == 'commit-failed':
            key = (ev[1], ev[2])
            outcomes.append('conflict' if ev[4] else ev[3])
            ws = writes.get(key, {})
            if not ev[4]:
                viol.append(('error', 'commit:%s' % ev[3], dict(event=ev)))
                continue
            # stores nothing
            for n, bit, serial in incs.get(key, ()):
                if any(st.get('v') & bit for t, st in byname[n]):
                    viol.append(('conflict', 'failed-commit-left-data',
                                 dict(txn=key, obj=n, bit=bit)))
            for n, (b, v) in ws.items():
                if (n, v) in val2tid:
                    viol.append(('conflict', 'failed-commit-left-data',
                                 dict(txn=key, obj=n, value=v)))
            # justified: some dependency had a newer revision whose writer
            # had started committing before this failure
            deps = {n: b for n, (b, v) in ws.items()}
            deps.update(rcs.get(key, {}))
            for n, bit, serial in incs.get(key, ()):
                deps[n] = serial
            just = False
            for n, serial in deps.items():
                for t, st in byname[n]:
                    if serial is not None and t > serial:
                        just = True
            if not just:
                viol.append(('conflict', 'unjustified-conflict',
                             dict(txn=key, deps=deps)))
    # replay: final value of each object = last successful writer's value
    for n, rl in byname.items():
        pass
    key = repr((tuple(outcomes),
                tuple(len(rl) for n, rl in sorted(byname.items()))))
    return key, viol


def judge(cfg, S, w):
    for t in S.threads:
        if t.outcome and t.outcome[0] == 'exc':
            e = t.outcome[1]
            return 'thread-exc', [('error', 'thread:%s' % type(e).__name__,
                                   dict(thread=t.id, error=repr(e)[:300]))]
    if S.verdict is not None:
        return 'verdict-%s' % S.verdict, []
    return judge_events(w)


def seq_task(kind, names):
    env.install()
    sched.install_locks()
    from checks.c02_snapshot import interleavings
    res = schedx._new_res()
    progs_steps = [CATALOG[n] for n in names]
    count = 0
    for order in interleavings([len(p) for p in progs_steps]):
        count += 1
        w = dbworld.DBWorld(kind, record=False, merge_names=MERGE)
        try:
            progs = [dbworld.Prog(w, i, st)
                     for i, st in enumerate(progs_steps)]
            pos = [0] * len(progs)
            err = None
            for who in order:
                try:
                    progs[who].step(progs_steps[who][pos[who]])
                except Exception as e:      # noqa: B902
                    err = (who, progs_steps[who][pos[who]], repr(e)[:200])
                    break
                pos[who] += 1
            if err:
                key, viol = 'error', [('error', 'seq:%s' % err[2].split(
                    '(')[0], dict(error=err))]
            else:
                key, viol = judge_events(w)
        finally:
            w.close()
        res['cov']['traces_validated_against_impl'] += 1
        res['cov']['transitions'] += len(order)
        res['cov']['evaluations'] += 1
        res['outcomes'][key] = res['outcomes'].get(key, 0) + 1
        for c, sg, d in viol:
            fsig = 'C03.%s:seq:%s' % (c, sg)
            if not any(v[1] == fsig for v in res['violations']):
                res['violations'].append((
                    'C03.' + c, fsig,
                    dict(seq=dict(kind=kind, programs=list(names),
                                  order=list(order))), d, 1))
    res['cov']['states'] += count
    return res


def undo_scenarios(kind):
    """A writer that still holds a revision whose transaction is undone
    (incl. the creating one) or whose object is deleted meanwhile must get a
    conflict, and nothing of its write may be stored."""
    import os
    import transaction
    from mc import hclasses, world
    env.install()
    res = schedx._new_res()
    seen = set()
    CE = env.mod('ZODB.POSException').ConflictError
    PK = env.mod('ZODB.POSException').POSKeyError
    for what in ('undo-creation', 'undo-modification', 'delete'):
        if what == 'delete' and kind != 'F':
            continue        # no deleteObject on a demo storage
        for reader_cached in (True, False):
            env.reset_globals()
            d = env.new_dir('us')
            FS = env.mod('ZODB.FileStorage.FileStorage').FileStorage
            MS = env.mod('ZODB.MappingStorage').MappingStorage
            DS = env.mod('ZODB.DemoStorage').DemoStorage
            st = FS(os.path.join(d, 'Data.fs'))
            if kind == 'DMF':
                st = DS(base=MS('b'), changes=st)
            db = env.mod('ZODB.DB').DB(st)
            wit = dict(scenario=dict(kind=kind, what=what,
                                     cached=reader_cached))
            try:
                tm1 = transaction.TransactionManager()
                c1 = db.open(tm1)
                z = hclasses.P()
                z.v = 1
                c1.root()['z'] = z
                env.CLOCK.now += 1
                tm1.get().note('create')
                tm1.commit()
                if what == 'undo-modification':
                    z.v = 2
                    env.CLOCK.now += 1
                    tm1.get().note('modify')
                    tm1.commit()
                tm2 = transaction.TransactionManager()
                c2 = db.open(tm2)
                z2 = c2.root()['z']
                held = z2.v
                oid, serial = z2._p_oid, z2._p_serial
                env.CLOCK.now += 1
                if what == 'delete':
                    del c1.root()['z']
                    tm1.commit()
                    t = world.TMD(b'', b'delete')
                    env.CLOCK.now += 1
                    s0 = db.storage
                    s0.tpc_begin(t)
                    s0.deleteObject(oid, serial, t) if hasattr(
                        s0, 'deleteObject') else None
                    s0.tpc_vote(t)
                    s0.tpc_finish(t)
                else:
                    info = db.undoInfo(0, 5)
                    db.undo(info[0]['id'], tm1.get())
                    tm1.commit()
                before = db.storage.lastTransaction()
                # the second connection has not crossed a boundary: it still
                # holds its copy and writes it
                z2.v = 99
                env.CLOCK.now += 1
                try:
                    tm2.commit()
                    out = 'committed'
                except (CE, PK) as e:
                    tm2.abort()
                    out = 'refused'
                except Exception as e:      # noqa: B902
                    tm2.abort()
                    out = type(e).__name__
                res['cov']['evaluations'] += 1
                res['cov']['states'] += 1
                res['cov']['traces_validated_against_impl'] += 1
                res['cov']['distinct_nontrivial'] += 1
                res['outcomes']['undo-scenario:%s' % out] = \
                    res['outcomes'].get('undo-scenario:%s' % out, 0) + 1
                stored = db.storage.lastTransaction() != before
                if out != 'refused' or stored:
                    fs = 'C03.conflict:%s:write-over-%s:%s' % (
                        kind, what, out)
                    if fs not in seen:
                        seen.add(fs)
                        res['violations'].append((
                            'C03.conflict', fs, wit,
                            dict(outcome=out, stored=stored, held=held), 1))
            finally:
                try:
                    db.close()
                except Exception:
                    pass
                env.rm_dir(d)
    return res


def run(rep, tier, seed, workers):
    bound = 2 if tier == 'quick' else 3
    rep.rule = (
        'schedules: every schedule with at most the stated number of '
        'preemptions of 2-3 committer harnesses (same object, retry after '
        'conflict, two objects with a conflict on the second, readCurrent '
        'with and without savepoint; increments of an object whose class '
        'merges, alone, with retry and together with a conflicting plain '
        'write) on FileStorage, MappingStorage and two '
        'DemoStorage layerings; interleavings: all merges of pairs of 11 step '
        'programs on the 4 storages (quick: the merging programs only in 5 '
        'pairs); non-trivial = distinct outcome '
        '(sequence of commit results x revisions per object)')
    plan = []
    for kind in KINDS:
        for name in HARNESSES:
            three = len(HARNESSES[name]) == 3
            if three and (tier == 'quick' and kind not in ('F', 'M')):
                continue
            if tier == 'quick' and name.startswith('ik') and (
                    kind not in ('F', 'DMM') or (three and kind != 'F')):
                continue
            plan.append((dict(prop='C03', kind=kind, name=name),
                         bound - 1 if three else bound))
            rep.bounds['%s/%s preemptions' % (kind, name)] = plan[-1][1]
    schedx.explore_many(rep, MOD, plan, workers, seed)
    names = sorted(CATALOG)
    tasks = []
    for kind in KINDS:
        for pair in itertools.combinations_with_replacement(names, 2):
            if tier == 'quick' and any(n.startswith(('ik', 'rcx-wx-', 'rcgx'))
                                       for n in pair) \
                    and pair not in MERGE_PAIRS:
                continue
            tasks.append((MOD, 'seq_task', (kind, pair)))
    tasks += [(MOD, 'undo_scenarios', (k,)) for k in ('F', 'DMF')]
    par.run_tasks(tasks, workers, rep, seed)
    rep.bounds['interleaved program pairs'] = len(tasks) - 2
    rep.cov['distinct_nontrivial'] = len(rep.outcomes)
    rep.assumptions = [
        'the merging class is a bit set whose resolver is correct; what the '
        'resolver is shown and what is stored is C10',
        'CPython GIL semantics; points at lock operations and recorded I/O']


def replay(w):
    wit = w['witness']
    if 'scenario' in wit:
        r = undo_scenarios(wit['scenario']['kind'])
        viol = r['violations']
    elif 'seq' in wit:
        r = seq_task(wit['seq']['kind'], tuple(wit['seq']['programs']))
        viol = r['violations']
    else:
        viol = schedx.replay(MOD, wit)
    for v in viol:
        print(v[1], v[3])
    return w['signature'] not in {v[1] for v in viol}
