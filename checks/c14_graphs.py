"""C14: object graphs round-trip and reference extraction is exact.

Bounded-exhaustive INPUT enumeration: every graph of a root plus up to two
(three) new nodes of six kinds, every subset of six (nine) possible edges with
each edge placed directly, inside a list, or inside a dict inside a tuple;
unreachable nodes explicitly added or not; weak / cross-database / weak
cross-database edges; object ids forced through small, high-bit and all-ASCII
values; hand-assembled Python-2-era records with short-string oids.
Checked: isomorphic graph and one object per oid in a second connection,
stored iff reachable or added, no embedded foreign state, and
referencesf(record) == the strong same-database references logged by an
independent wrapper around the writer's persistent_id.
"""
import io
import itertools
import os
import pickle
import sys
import types

import transaction

from mc import env, hclasses, par, schedx
from mc.battery import Exc, call, p64

MOD = 'checks.c14_graphs'
NODE_KINDS = ('P', 'NA', 'PM', 'PL', 'BR', 'BL')
PLACEMENTS = ('direct', 'list', 'dicttuple')
OIDSETS = {
    'small': None,
    'ascii': [b'AAAAAAAA', b'AAAAAAAB', b'AAAAAAAC', b'AAAAAAAD'],
    'high': [p64((1 << 63) + 5), p64((1 << 63) + 6), p64((1 << 64) - 2),
             p64((1 << 63) + 8)],
}
_BR = []


def _br_module():
    if not _BR:
        m = types.ModuleType('mc_transient_br')
        exec('from persistent import Persistent\n'
             'class Gone(Persistent):\n    pass\n_Gone = Gone\n',
             m.__dict__)
        _BR.append(m)
    return _BR[0]


HIDE = ['module']    # how the class goes missing: the whole module cannot
#                      be imported, or it imports but has lost the class


def br_class():
    m = _br_module()
    if not hasattr(m, 'Gone'):
        m.Gone = m._Gone
    sys.modules['mc_transient_br'] = m
    return m.Gone


def hide_br():
    if HIDE[0] == 'module':
        sys.modules.pop('mc_transient_br', None)
    else:
        m = _br_module()
        sys.modules['mc_transient_br'] = m
        if hasattr(m, 'Gone'):
            del m.Gone
    env.mod('ZODB.broken').broken_cache.clear()


def make_node(kind, name):
    from persistent.list import PersistentList
    from persistent.mapping import PersistentMapping
    if kind == 'P':
        o = hclasses.P()
    elif kind == 'NA':
        o = hclasses.NA()
    elif kind == 'PM':
        o = PersistentMapping()
    elif kind == 'PL':
        o = PersistentList()
    elif kind == 'BR':
        o = br_class()()
    elif kind == 'BL':
        o = env.mod('ZODB.blob').Blob()
        with o.open('w') as f:
            f.write(b'token-' + name.encode())
        return o
    put(o, kind, 'tok', 'token-' + name)
    return o


def put(o, kind, key, value):
    if kind == 'PM':
        o[key] = value
    elif kind == 'PL':
        o.append((key, value))
    else:
        setattr(o, key, value)


def wrap(target, placement):
    if placement == 'direct':
        return target
    if placement == 'list':
        return [target]
    if placement == 'dicttuple':
        return ({'k': target},)
    if placement == 'weak':
        from persistent.wref import WeakRef
        return WeakRef(target)
    raise ValueError(placement)


def unwrap(v):
    """(placement, target) of a loaded edge value."""
    from persistent.wref import WeakRef
    if isinstance(v, WeakRef):
        return 'weak', v()
    if isinstance(v, list):
        return 'list', v[0]
    if isinstance(v, tuple):
        return 'dicttuple', v[0]['k']
    return 'direct', v


def items_of(o):
    """{key: value} of a loaded node, whatever its kind."""
    from persistent.list import PersistentList
    from persistent.mapping import PersistentMapping
    Broken = env.mod('ZODB.broken').Broken
    if isinstance(o, PersistentMapping):
        return dict(o)
    if isinstance(o, PersistentList):
        return dict(o)
    if isinstance(o, Broken):
        o._p_activate()
        return dict(o.__Broken_state__ or {})
    if type(o).__name__ == 'Blob':
        with o.open('r') as f:
            return {'tok': f.read().decode()}
    o._p_activate()
    return dict(o.__dict__)


class Graph:
    """kinds: {name: kind}; edges: [(src, dst, placement)]; added: names."""

    def __init__(self, kinds, edges, added=(), oidset='small', xdb=(),
                 program=None):
        self.program = program      # None | 'sp-reattach'
        self.kinds = dict(kinds)
        self.edges = list(edges)
        self.added = tuple(added)
        self.oidset = oidset
        self.xdb = tuple(xdb)       # names living in the other database

    def witness(self):
        return dict(kinds=self.kinds, edges=[list(e) for e in self.edges],
                    added=list(self.added), oidset=self.oidset,
                    xdb=list(self.xdb), program=self.program)

    def reachable(self):
        reach, todo = set(), ['root']
        while todo:
            n = todo.pop()
            if n in reach:
                continue
            reach.add(n)
            todo += [d for s, d, p in self.edges if s == n]
        return reach


def check_graph(g, res=None):
    """Build, commit, reload, judge.  Returns list of violations."""
    env.reset_globals()
    viol = []
    d = env.new_dir('g')
    DBm = env.mod('ZODB.DB').DB
    FS = env.mod('ZODB.FileStorage.FileStorage').FileStorage
    MS = env.mod('ZODB.MappingStorage').MappingStorage
    ser = env.mod('ZODB.serialize')
    has_blob = 'BL' in g.kinds.values()
    st = FS(os.path.join(d, 'Data.fs'),
            blob_dir=os.path.join(d, 'blobs') if has_blob else None)
    forced = list(OIDSETS[g.oidset] or [])
    if forced:
        orig_new_oid = st.new_oid

        def new_oid():
            if forced:
                o = forced.pop(0)
                st.set_max_oid(o) if o < p64((1 << 63)) else None
                return o
            return orig_new_oid()
        st.new_oid = new_oid
    dbs = {}
    db = DBm(st, databases=dbs, database_name='main')
    other = DBm(MS('other'), databases=dbs, database_name='other')

    def bad(c, s, det):
        viol.append((c, s, dict(det, graph=g.witness())))

    # independent log of what the writer's persistent_id returned, per record
    log = {}
    cur = [None]
    orig_pid = ser.ObjectWriter.persistent_id
    orig_ser = ser.ObjectWriter.serialize

    def pid(self, obj):
        r = orig_pid(self, obj)
        if r is not None and cur[0] is not None:
            log.setdefault(cur[0], []).append(r)
        return r

    def serialize(self, obj):
        prev = cur[0]
        cur[0] = id(obj)
        log[cur[0]] = []        # the latest serialization is what is stored
        try:
            p = orig_ser(self, obj)
        finally:
            cur[0] = prev
        byid[id(obj)] = obj
        return p
    byid = {}
    try:
        ser.ObjectWriter.persistent_id = pid
        ser.ObjectWriter.serialize = serialize
        tm = transaction.TransactionManager()
        c = db.open(tm)
        root = c.root()
        nodes = {'root': root}
        for name, kind in g.kinds.items():
            nodes[name] = make_node(kind, name)
        for name in g.xdb:
            oc = c.get_connection('other')
            oc.root()[name] = nodes[name]
            oc.add(nodes[name])
        wrapped = {}

        def attach():
            for src, dst, placement in g.edges:
                kind = 'PM' if src == 'root' else g.kinds[src]
                # the very same values (weak reference objects) when the
                # objects are attached a second time
                key = (src, dst, placement)
                if key not in wrapped:
                    wrapped[key] = wrap(nodes[dst], placement)
                put(nodes[src], kind, 'e_' + dst, wrapped[key])
            for name in g.added:
                c.add(nodes[name])
        def program():
            # attach the new objects, take a savepoint, roll back to before
            # they were attached, attach the same objects again
            root['x'] = 1
            sp1 = tm.savepoint()
            attach()
            tm.savepoint()
            sp1.rollback()
            for name in g.kinds:
                # plain attributes of an un-added object are its own
                if g.kinds[name] not in ('PM', 'PL', 'BL'):
                    for k in list(vars(nodes[name])):
                        if k.startswith('e_'):
                            delattr(nodes[name], k)
                elif g.kinds[name] == 'PM':
                    for k in [k for k in nodes[name] if k.startswith('e_')]:
                        del nodes[name][k]
                elif g.kinds[name] == 'PL':
                    nodes[name][:] = [i for i in nodes[name]
                                      if not i[0].startswith('e_')]
        if g.program == 'sp-reattach':
            r = call(program)
            if isinstance(r, Exc):
                tm.abort()
                bad('error', 'program:%s' % r.name, dict(error=repr(r)))
                return viol
        r = call(attach)
        if isinstance(r, Exc):
            tm.abort()
            bad('error', 'build:%s' % r.name, dict(error=repr(r)))
            return viol
        env.CLOCK.now += 1
        r = call(tm.commit)
        if isinstance(r, Exc):
            tm.abort()
            bad('error', 'commit:%s' % r.name, dict(error=repr(r)))
            return viol
    finally:
        ser.ObjectWriter.persistent_id = orig_pid
        ser.ObjectWriter.serialize = orig_ser
    try:
        # weak edges do not make their target reachable
        # stored = closure of {root} + explicitly added objects under strong
        # edges (a weak edge from a stored object makes the writer store its
        # target too, see persistent_id)
        expect_stored, todo = set(), ['root'] + list(g.added)
        while todo:
            nm = todo.pop()
            if nm in expect_stored:
                continue
            expect_stored.add(nm)
            if nm in g.xdb:
                continue
            todo += [dd for s, dd, p in g.edges if s == nm]
        expect_stored -= set(g.xdb)
        oid_of = {n: o._p_oid for n, o in nodes.items()
                  if getattr(o, '_p_oid', None) is not None
                  and n not in g.xdb}
        # stored iff reachable or added
        records = {}
        it = st.iterator()
        for t in it:
            for rec in t:
                records[rec.oid] = rec.data
        it.close()
        stored_names = {n for n, o in oid_of.items() if o in records}
        if stored_names != expect_stored:
            bad('stored', 'set-differs', dict(
                expected=sorted(expect_stored), got=sorted(stored_names)))
        # each record: referencesf == logged strong same-db refs; no
        # embedded state of another node
        referencesf = ser.referencesf
        for name in stored_names:
            o = nodes[name]
            rec = records[oid_of[name]]
            logged = log.get(id(o), [])
            strong = []
            for r in logged:
                if isinstance(r, tuple):
                    strong.append(bytes(r[0]))
                elif isinstance(r, (bytes, str)):
                    strong.append(bytes(r))
            got = call(referencesf, rec)
            if got != strong:
                bad('refs', 'referencesf-differs:%s' % (
                    'exception' if isinstance(got, Exc) else
                    'types' if [type(x) for x in got] != [bytes] * len(got)
                    else 'oids'),
                    dict(node=name, expected=strong, got=repr(got)[:200]))
            for other_name in g.kinds:
                if other_name != name and \
                        ('token-' + other_name).encode() in rec:
                    bad('noembed', 'foreign-state-in-record',
                        dict(node=name, embedded=other_name))
        # second connection: isomorphic, same oids, one object per oid
        hide_br()
        tm2 = transaction.TransactionManager()
        c2 = db.open(tm2)
        try:
            seen = {}

            def visit(o, name):
                key = (o._p_jar.db().database_name, o._p_oid)
                if key in seen:
                    if seen[key][0] is not o:
                        bad('iso', 'two-objects-for-one-oid', dict(node=name))
                    elif seen[key][1] != name:
                        bad('iso', 'edge-leads-to-another-node', dict(
                            node=name, got=seen[key][1]))
                    return
                seen[key] = (o, name)
                want_oid = nodes[name]._p_oid
                if o._p_oid != want_oid:
                    bad('iso', 'oid-differs', dict(
                        node=name, expected=want_oid, got=o._p_oid))
                its = items_of(o)
                if name != 'root':
                    if its.get('tok') != 'token-' + name:
                        bad('iso', 'state-differs', dict(
                            node=name, got=repr(its.get('tok'))))
                    kind = g.kinds[name]
                    cn = type(o).__name__
                    exp = {'P': 'P', 'NA': 'NA', 'PM': 'PersistentMapping',
                           'PL': 'PersistentList', 'BR': 'Gone',
                           'BL': 'Blob'}[kind]
                    if cn != exp:
                        bad('iso', 'class-differs', dict(
                            node=name, expected=exp, got=cn))
                want_edges = {dd: p for s, dd, p in g.edges if s == name}
                got_edges = {k[2:]: v for k, v in its.items()
                             if isinstance(k, str) and k.startswith('e_')}
                if set(got_edges) != set(want_edges):
                    bad('iso', 'edges-differ', dict(
                        node=name, expected=sorted(want_edges),
                        got=sorted(got_edges)))
                    return
                for dd, v in got_edges.items():
                    p, tgt = unwrap(v)
                    if p != want_edges[dd]:
                        bad('iso', 'edge-placement', dict(
                            node=name, edge=dd, expected=want_edges[dd],
                            got=p))
                    if tgt is None:
                        bad('iso', 'dangling-weak-edge', dict(
                            node=name, edge=dd))
                        continue
                    visit(tgt, dd)
            r = call(visit, c2.root(), 'root')
            if isinstance(r, Exc):
                bad('iso', 'load:%s' % r.name, dict(error=repr(r)))
            # while the class of a node is missing, an object that refers to
            # that node can still be changed and stored, and the graph is
            # intact when the class is back
            holders = sorted({sname for sname, dname, p in g.edges
                              if g.kinds.get(dname) == 'BR'
                              and (sname == 'root' or sname in stored_names)
                              and g.kinds.get(sname, 'PM') != 'BR'
                              and sname not in g.xdb and p != 'weak'})
            if holders and not viol:
                hname = holders[0]
                holder = c2.root() if hname == 'root' else \
                    c2.get(nodes[hname]._p_oid)
                holder._p_activate()
                holder._p_changed = True
                env.CLOCK.now += 1
                r = call(tm2.commit)
                if isinstance(r, Exc):
                    tm2.abort()
                    bad('missing', 'holder-of-missing-class-not-storable:%s'
                        % r.name, dict(holder=hname, error=repr(r)[:200]))
                else:
                    br_class()
                    tm3 = transaction.TransactionManager()
                    c3 = db.open(tm3)
                    try:
                        seen.clear()
                        r = call(visit, c3.root(), 'root')
                        if isinstance(r, Exc):
                            bad('missing', 'after-resave:%s' % r.name,
                                dict(error=repr(r)[:200]))
                    finally:
                        tm3.abort()
                        c3.close()
                    hide_br()
        finally:
            tm2.abort()
            c2.close()
            br_class()
        # a weak reference into a database that is not configured in a
        # later session reads as "gone", never as some local object
        weak_x = [(sname, dname) for sname, dname, p in g.edges
                  if p == 'weak' and dname in g.xdb and sname not in g.xdb]
        if weak_x and not viol and not has_blob and not forced:
            tm.abort()
            c.close()
            db.close()
            st2 = FS(os.path.join(d, 'Data.fs'))
            db2 = DBm(st2)
            tm4 = transaction.TransactionManager()
            c4 = db2.open(tm4)
            try:
                for sname, dname in weak_x:
                    src = c4.root() if sname == 'root' else \
                        c4.get(nodes[sname]._p_oid)
                    v = call(lambda: items_of(src)['e_' + dname])
                    t = call(lambda: unwrap(v)[1]) \
                        if not isinstance(v, Exc) else v
                    if t is not None:
                        bad('weakxdb', 'target-without-its-database:%s' % (
                            t.name if isinstance(t, Exc)
                            else type(t).__name__),
                            dict(src=sname, dst=dname, got=repr(t)[:120]))
            finally:
                tm4.abort()
                c4.close()
                db2.close()
    except Exception as e:      # noqa: B902
        import traceback
        bad('error', 'oracle:%s' % type(e).__name__,
            dict(error=repr(e)[:200], where=traceback.format_exc()[-500:]))
    finally:
        try:
            tm.abort()
            c.close()
            db.close()
            other.close()
        except Exception:
            pass
        env.rm_dir(d)
    return viol


# -------------------------------------------------------- legacy records

class ShortStr(bytes):
    """bytes that the legacy pickler writes as SHORT_BINSTRING."""


class LegacyPickler(pickle._Pickler):
    def save_shortstr(self, obj):
        self.write(b'U' + bytes([len(obj)]) + bytes(obj))
    dispatch = dict(pickle._Pickler.dispatch)
    dispatch[ShortStr] = save_shortstr


def legacy_record(cls, state_refs):
    """A Python-2-era record: protocol 1, oids as SHORT_BINSTRING.
    state_refs: list of (fmt, oid) with fmt in tuple / oid / weak."""
    class Ref:
        def __init__(self, fmt, oid):
            self.fmt, self.oid = fmt, oid
    f = io.BytesIO()

    def pid(obj):
        if isinstance(obj, Ref):
            o = ShortStr(obj.oid)
            if obj.fmt == 'tuple':
                return (o, hclasses.P)
            if obj.fmt == 'oid':
                return o
            if obj.fmt == 'weak':
                return ['w', (o,)]
        return None
    p = LegacyPickler(f, 1)
    p.persistent_id = pid
    p.dump(cls)
    p = LegacyPickler(f, 1)
    p.persistent_id = pid
    p.dump({'tok': 'legacy', 'refs': [Ref(*r) for r in state_refs]})
    return f.getvalue()


def check_legacy(oids, fmts):
    """Store hand-assembled legacy records, then referencesf / load / pack."""
    env.reset_globals()
    viol = []
    d = env.new_dir('lg')
    from mc import world
    FS = env.mod('ZODB.FileStorage.FileStorage').FileStorage
    ser = env.mod('ZODB.serialize')
    st = FS(os.path.join(d, 'Data.fs'))
    wit = dict(legacy=dict(oids=[o.hex() for o in oids], fmts=list(fmts)))

    def bad(c, s, det):
        viol.append((c, s, dict(det, **wit)))
    try:
        t = world.TMD()
        env.CLOCK.now += 1
        st.tpc_begin(t)
        # root -> holder -> targets
        refs = list(zip(fmts, oids))
        holder = p64(1)
        recs = {p64(0): legacy_record(hclasses.P, [('tuple', holder)]),
                holder: legacy_record(hclasses.P, refs)}
        for o in oids:
            recs[o] = legacy_record(hclasses.P, [])
        for o, data in recs.items():
            st.store(o, b'\0' * 8, data, '', t)
        st.tpc_vote(t)
        st.tpc_finish(t)
        got = call(ser.referencesf, recs[holder])
        want = [o for f, o in refs if f != 'weak']
        if got != want:
            bad('refs', 'legacy-referencesf:%s' % (
                'exception' if isinstance(got, Exc) else
                'types' if [type(x) for x in got] != [bytes] * len(got)
                else 'oids'), dict(expected=want, got=repr(got)))
        # the graph loads, and garbage collection keeps what is referenced
        db = env.mod('ZODB.DB').DB(st)
        tm = transaction.TransactionManager()
        c = db.open(tm)
        try:
            h = c.get(holder)
            from persistent.wref import WeakRef
            r = call(lambda: [x.oid if isinstance(x, WeakRef) else x._p_oid
                              for x in h.refs])
            if r != list(oids):
                bad('iso', 'legacy-load', dict(expected=list(oids),
                                               got=repr(r)))
            env.CLOCK.now += 1
            r = call(db.pack, env.CLOCK.now)
            if isinstance(r, Exc):
                bad('refs', 'legacy-pack:%s' % r.name, dict(error=repr(r)))
            else:
                for f, o in refs:
                    r = call(st.load, o)
                    if f != 'weak' and isinstance(r, Exc):
                        bad('refs', 'legacy-pack-lost-referenced',
                            dict(oid=o, got=repr(r)))
        finally:
            tm.abort()
            c.close()
            db.close()
    except Exception as e:      # noqa: B902
        bad('error', 'legacy:%s' % type(e).__name__, dict(error=repr(e)))
        try:
            st.close()
        except Exception:
            pass
    finally:
        env.rm_dir(d)
    return viol


# ----------------------------------------------------------- enumeration

def graphs_for(kinds_pair, tier):
    """All graphs over root + A, B of the given kinds."""
    ka, kb = kinds_pair
    kinds = {'A': ka, 'B': kb}
    slots = [('root', 'A'), ('root', 'B'), ('A', 'B'), ('B', 'A'),
             ('A', 'A'), ('B', 'root')]
    # a blob holds no references
    slots = [(s, d) for s, d in slots if kinds.get(s, 'PM') != 'BL']
    choices = (None,) + PLACEMENTS
    for combo in itertools.product(choices, repeat=len(slots)):
        edges = [(s, d, p) for (s, d), p in zip(slots, combo)
                 if p is not None]
        g = Graph(kinds, edges)
        unreach = [n for n in kinds if n not in g.reachable()]
        for k in range(len(unreach) + 1):
            for added in itertools.combinations(unreach, k):
                yield Graph(kinds, edges, added)


def special_graphs():
    """Weak and cross-database edges, forced oids."""
    for ka in NODE_KINDS:
        for p in ('weak',):
            for src in ('root',):
                yield Graph({'A': ka, 'B': 'P'},
                            [(src, 'A', p), ('root', 'B', 'direct'),
                             ('B', 'A', 'direct')])
                yield Graph({'A': ka}, [(src, 'A', p)])
                yield Graph({'A': ka}, [(src, 'A', p)], added=('A',))
    for ka in ('P', 'NA', 'PM'):
        for p in ('direct', 'list', 'weak'):
            yield Graph({'A': ka}, [('root', 'A', p)], xdb=('A',))
            yield Graph({'A': ka, 'B': 'P'},
                        [('root', 'B', 'direct'), ('B', 'A', p)],
                        xdb=('A',))
    for ka, kb in itertools.product(('P', 'NA', 'PM'), repeat=2):
        for p in PLACEMENTS + ('weak',):
            if p == 'weak':
                # a weak reference next to the strong path, made before the
                # rollback un-adds its target
                yield Graph({'A': ka, 'B': kb},
                            [('root', 'A', 'direct'), ('A', 'B', 'direct'),
                             ('root', 'B', 'weak')],
                            program='sp-reattach')
                continue
            yield Graph({'A': ka, 'B': kb},
                        [('root', 'A', p), ('A', 'B', 'direct')],
                        program='sp-reattach')
            yield Graph({'A': ka, 'B': kb}, [('A', 'B', p)], added=('A',),
                        program='sp-reattach')
    for oidset in ('ascii', 'high'):
        for ka, kb in itertools.product(('P', 'NA', 'PM', 'PL'), repeat=2):
            for p in PLACEMENTS + ('weak',):
                yield Graph({'A': ka, 'B': kb},
                            [('root', 'A', 'direct'), ('A', 'B', p),
                             ('root', 'B', 'list'), ('B', 'A', 'direct')],
                            oidset=oidset)


def graph_task(pair, tier):
    env.install()
    res = schedx._new_res()
    seen = set()
    n = 0
    for g in graphs_for(pair, tier):
        n += 1
        viol = check_graph(g)
        if 'BR' in g.kinds.values() and not viol:
            # once more with the class missing from a module that imports
            HIDE[0] = 'attribute'
            try:
                viol = [(c, s + ':class-removed-from-module', d)
                        for c, s, d in check_graph(g)]
            finally:
                HIDE[0] = 'module'
        res['cov']['evaluations'] += 1
        if len(g.edges) >= 2:
            res['cov']['distinct_nontrivial'] += 1
        for c, s, d in viol:
            fs = 'C14.%s:%s' % (c, s)
            if fs not in seen:
                seen.add(fs)
                res['violations'].append(('C14.' + c, fs, d['graph'], d, 1))
    res['cov']['states'] += n
    res['cov']['transitions'] += n
    res['cov']['traces_validated_against_impl'] += n
    res['outcomes']['graphs:%s+%s' % pair] = n
    if not res['samples']:
        res['samples'].append(g.witness())
    return res


def special_task(which):
    env.install()
    res = schedx._new_res()
    seen = set()
    n = 0
    if which == 'special':
        for g in special_graphs():
            n += 1
            for c, s, d in check_graph(g):
                fs = 'C14.%s:%s' % (c, s)
                if fs not in seen:
                    seen.add(fs)
                    res['violations'].append(('C14.' + c, fs, d['graph'], d,
                                              1))
    else:
        # Python 2 str oids reach Python 3 undecoded only if every byte is
        # below 0x80 (anything else needs a conversion tool first)
        oidsets = [[b'AAAAAAAA', b'AAAAAAAB'], [p64(2), p64(3)],
                   [p64(0x41), p64(0x7f)], [b'\x7f' * 8, b'\x01' * 8],
                   [b'AAAAAAAA', p64(0x7f7f)]]
        for oids in oidsets:
            for fmts in itertools.product(('tuple', 'oid', 'weak'),
                                          repeat=2):
                n += 1
                for c, s, d in check_legacy(oids, fmts):
                    fs = 'C14.%s:%s' % (c, s)
                    if fs not in seen:
                        seen.add(fs)
                        res['violations'].append((
                            'C14.' + c, fs, dict(legacy=d['legacy']), d, 1))
    res['cov']['states'] += n
    res['cov']['transitions'] += n
    res['cov']['evaluations'] += n
    res['cov']['distinct_nontrivial'] += n
    res['cov']['traces_validated_against_impl'] += n
    res['outcomes'][which] = n
    return res


def run(rep, tier, seed, workers):
    kinds = ('P', 'NA', 'PM') if tier == 'quick' else NODE_KINDS
    rep.rule = (
        'inputs = every graph over a root mapping and two new nodes A, B of '
        'kinds %r with every subset of the edges root->A, root->B, A->B, '
        'B->A, A->A, B->root, each edge placed directly / in a list / in a '
        'dict in a tuple, unreachable nodes added explicitly or not; plus '
        'weak, cross-database and forced-oid (all-ASCII, high-bit) families '
        'and hand-assembled protocol-1 records with short-string oids in '
        'every reference format; non-trivial = graph with at least two '
        'edges; a node of a class that is missing in the second session '
        '(module gone / class removed from a module that imports) in the '
        'pair (BR, P) and the special families' % (kinds,))
    pairs = list(itertools.product(kinds, repeat=2))
    if tier == 'quick':
        # one pair with a node whose class goes missing (the module cannot
        # be imported / imports without the class)
        pairs.append(('BR', 'P'))
    tasks = [(MOD, 'graph_task', (pair, tier)) for pair in pairs]
    tasks += [(MOD, 'special_task', ('special',)),
              (MOD, 'special_task', ('legacy',))]
    par.run_tasks(tasks, workers, rep, seed)
    rep.bounds['node kinds'] = list(kinds)
    rep.bounds['new nodes'] = 2
    rep.assumptions = [
        'a weak reference whose target is reachable from a stored object '
        'makes the writer store the target (persistent_id says so); the '
        'target of a weak edge therefore counts as stored']


def replay(w):
    wit = w['witness']
    if 'legacy' in wit:
        lg = wit['legacy']
        viol = check_legacy([bytes.fromhex(o) for o in lg['oids']],
                            tuple(lg['fmts']))
    else:
        g = Graph(wit['kinds'], [tuple(e) for e in wit['edges']],
                  wit['added'], wit['oidset'], wit.get('xdb', ()),
                  wit.get('program'))
        viol = check_graph(g)
    for v in viol:
        print(v[0], v[1], str(v[2])[:300])
    sigs = {'C14.%s:%s' % (c, s) for c, s, d in viol}
    return w['signature'] not in sigs
