"""C01: committed transactions survive a crash at any point; unfinished ones
vanish.

Every history over the storage alphabet runs on a real FileStorage over the
recording file layer.  For the low-level ops issued by the LAST step of each
history, every crash image is built (every op boundary, and every byte cut of
every write to Data.fs), written to a fresh directory, reopened read-write and
judged.  Cuts inside earlier steps were enumerated when the shorter history
was the node, so the union over the tree is every cut of every history.
"""
import os

from mc import battery, env, fsparse, iolog, seqx, world
from mc.battery import Exc, call, p64

MOD = 'checks.c01_crash'

KINDS = ['new', 'new2', 'mod', 'mod2', 'big', 'meta', 'empty', 'del', 'undo', 'stale',
         'restore', 'ab1', 'ab2', 'reopen']
PROBE_OID = p64(0x99)
# a non-initial state: two objects, both modified, one modified again (so
# that undo of the middle transaction is refused for one of its objects)
RICH = [['new2', 1, 2], ['mod2', 1, 2], ['mod', 2]]


def make_spec(cfg):
    return world.Spec(cfg.get('kinds') or KINDS, oids=(1, 2),
                      classes={1: 'R'}, undo_k=2)


class CrashWorld(world.World):
    pass


def build(cfg, hist, spec):
    env.reset_globals()
    w = world.World(cfg['kind'], record=True, bufsize=cfg.get('bufsize', 8192))
    w.snap0 = iolog.snapshot(w.dir)
    w.k0 = 0
    w.n0 = 0
    # 'start': a fixed non-initial state from which the tree is explored
    nrel = len(hist)
    hist = [tuple(o) for o in cfg.get('start', [])] + list(hist)
    for i, op in enumerate(hist):
        if nrel and i == len(hist) - 1:
            w.k0 = len(iolog.LOG.ops)
            w.n0 = len(w.model.txns)
        w.apply(tuple(op), spec)
    w.ops = list(iolog.LOG.ops)
    return w


def byte_cuts(n):
    if n <= 600:
        return range(1, n)
    s = set(range(1, 161)) | set(range(n - 160, n)) | set(range(1024, n, 1024))
    return sorted(s)


def cuts(w):
    """Yield (k, j): ops[:k] applied in full plus first j bytes of op k."""
    ops = w.ops
    for k in range(w.k0, len(ops) + 1):
        if k > w.k0 and ops[k - 1][0] in ('mark', 'fsync', 'chmod'):
            continue            # same disk content as the previous boundary
        yield (k, 0)
        if k < len(ops) and ops[k][0] == 'write' and \
                ops[k][1] == w.path:
            for j in byte_cuts(len(ops[k][3])):
                yield (k, j)


def allowed_prefixes(w, k):
    """Numbers of committed transactions acceptable for a crash before op k
    completes (k indexes the op being cut, or len(ops))."""
    n0 = w.n0
    n1 = len(w.model.txns)
    if n1 == n0:
        return (n0,)
    voted = finished = False
    for op in w.ops[w.k0:k]:
        if op[0] == 'mark' and op[1] == 'vote':
            voted = True
        if op[0] == 'mark' and op[1] == 'finished':
            finished = True
    if finished:
        return (n1,)
    if voted:
        return (n0, n1)
    return (n0,)


def fsync_monitor(w):
    """No Data.fs write later than the last Data.fs fsync when tpc_finish
    returns."""
    dirty = False
    bad = []
    for i, op in enumerate(w.ops):
        if op[0] in ('write', 'truncate') and op[1] == w.path:
            dirty = True
        elif op[0] == 'fsync' and op[1] == w.path:
            dirty = False
        elif op[0] == 'mark' and op[1] == 'finished' and dirty:
            bad.append(i)
    return bad


def append_only_monitor(w):
    """No write/truncate touches Data.fs below the committed end, except the
    status byte of the transaction being finished."""
    end = 4
    tpos = None
    bad = []
    committed = 4
    for i, op in enumerate(w.ops):
        if op[0] == 'mark' and op[1] == 'begin':
            tpos = None
        if op[1:2] != (w.path,):
            if op[0] == 'mark' and op[1] == 'finished':
                committed = end
            continue
        if op[0] == 'write':
            pos, b = op[2], op[3]
            if pos < committed and not (len(b) == 1 and tpos is not None
                                        and pos == tpos + 16):
                # the status byte of the in-flight transaction lies above
                # `committed`; anything below it is a violation
                bad.append((i, 'write', pos, len(b)))
            if tpos is None and pos >= committed:
                tpos = pos
            end = max(end, pos + len(b))
        elif op[0] == 'truncate':
            if op[2] < committed:
                bad.append((i, 'truncate', op[2]))
            end = min(end, op[2])
        elif op[0] == 'create':
            committed = end = 0
    return bad


def judge_image(w, disk, k, j, cfg, res):
    """Materialise, reopen, compare.  Returns list of violations."""
    viol = []
    d = env.new_dir('img')
    try:
        disk.materialize(d, skip=('.lock',))
        path = os.path.join(d, 'Data.fs')
        kw = {}
        if w.blob_dir:
            kw['blob_dir'] = os.path.join(d, 'blobs')
        FS = env.mod('ZODB.FileStorage.FileStorage').FileStorage
        iolog.LOG.recording = False
        s = call(FS, path, **kw)
        where = cut_kind(w, k, j)
        if isinstance(s, Exc):
            return [('open', '%s:%s' % (where, s.name),
                     dict(cut=(k, j), op=_opdesc(w, k), got=repr(s)))]
        try:
            allowed = allowed_prefixes(w, k)
            res.clause('C01.prefix')
            ok = False
            first_bad = None
            for p in allowed:
                m = w.model.copy_prefix(p)
                exp = battery.expect(m, iter_level=0)
                obs = battery.observe(s, m.oids() or w.model.oids(), m.tids(),
                                      'F', iter_level=0)
                bad = battery.compare(exp, obs, m)
                if not bad:
                    ok = True
                    break
                if first_bad is None or len(bad) < first_bad[2]:
                    first_bad = (p, bad[0], len(bad))
            if not ok:
                p, (q, e, g), _ = first_bad
                viol.append(('prefix', '%s:%s' % (
                    where, battery.sig_of('', q, e, g).lstrip(':')),
                    dict(cut=(k, j), op=_opdesc(w, k), allowed=allowed,
                         query=q, expected=repr(e)[:300], got=repr(g)[:300])))
                return viol
            res.outcome('image-shows-%s' % (
                'inflight' if p > w.n0 and len(allowed) > 1 else
                'committed'))
            # structure: nothing after the last transaction
            with open(path, 'rb') as f:
                data = f.read()
            diff = fsparse.check_against_model(data, m)
            res.clause('C01.struct')
            if diff:
                viol.append(('struct', '%s:%s' % (where, diff.split(':')[0]),
                             dict(cut=(k, j), diff=diff)))
                return viol
            # usable: one more commit, close, reopen, still equal
            env.CLOCK.now += 5
            t = world.TMD(b'probe')
            rec = b'probe-record'
            r = call(s.tpc_begin, t)
            if not isinstance(r, Exc):
                r = call(s.store, PROBE_OID, b'\0' * 8, rec, '', t)
            if not isinstance(r, Exc):
                r = call(s.tpc_vote, t)
            if not isinstance(r, Exc):
                r = call(s.tpc_finish, t)
            res.clause('C01.usable')
            if isinstance(r, Exc):
                viol.append(('usable', '%s:%s' % (where, r.name),
                             dict(cut=(k, j), got=repr(r))))
                return viol
            ptid = r
            s.close()
            s = call(FS, path, **kw)
            if isinstance(s, Exc):
                viol.append(('usable', '%s:reopen:%s' % (where, s.name),
                             dict(cut=(k, j), got=repr(s))))
                return viol
            from mc.refmodel import Rec, Txn
            m2 = m.copy_prefix(len(m.txns))
            m2.commit(Txn(ptid, b'probe', b'', {},
                          [Rec(PROBE_OID, 'data', rec)]))
            exp = battery.expect(m2, iter_level=0)
            obs = battery.observe(s, m2.oids(), m2.tids(), 'F', iter_level=0)
            bad = battery.compare(exp, obs, m2)
            if bad:
                q, e, g = bad[0]
                viol.append(('usable', '%s:after:%s' % (
                    where, battery.sig_of('', q, e, g).lstrip(':')),
                    dict(cut=(k, j), query=q, expected=repr(e)[:300],
                         got=repr(g)[:300])))
        finally:
            if not isinstance(s, Exc):
                try:
                    s.close()
                except Exception:
                    pass
    finally:
        env.rm_dir(d)
    return viol


def _opdesc(w, k):
    if k >= len(w.ops):
        return 'end'
    op = w.ops[k]
    return [op[0], os.path.basename(str(op[1]))] + [
        x if not isinstance(x, bytes) else len(x) for x in op[2:]]


def cut_kind(w, k, j):
    """Coarse, history-independent description of where the cut falls."""
    if k >= len(w.ops):
        return 'end'
    op = w.ops[k]
    name = os.path.basename(str(op[1])) if len(op) > 1 else ''
    name = name.replace('Data.fs', 'D')
    phase = 'idle'
    for o in w.ops[w.k0:k + 1]:
        if o[0] == 'mark':
            phase = o[1]
    return '%s/%s%s/%s' % (phase, op[0], '~' if j else '', name)


def node(w, hist, cfg, res):
    viol = []
    n = 0
    if not hist:
        return 0, False, viol
    for i in fsync_monitor(w):
        viol.append(('fsync', 'write-after-last-fsync', dict(op_index=i)))
    res.clause('C01.fsync', sum(1 for o in w.ops
                                if o[0] == 'mark' and o[1] == 'finished'))
    for b in append_only_monitor(w)[:1]:
        viol.append(('appendonly', b[1], dict(op=b)))
    # disk at the start of the last step
    base = iolog.Disk(w.dir, w.snap0)
    for op in w.ops[:w.k0]:
        base.apply(op)
    saved_now = env.CLOCK.now
    cur_k = w.k0
    seen_sig = set()
    for (k, j) in cuts(w):
        while cur_k < k:
            base.apply(w.ops[cur_k])
            cur_k += 1
        if j:
            img = iolog.Disk(w.dir, {})
            img.files = dict(base.files)
            rel = img.rel(w.path)
            img.files[rel] = bytearray(base.files.get(rel, b''))
            img.apply(w.ops[k], upto=j)
        else:
            img = base
        n += 1
        for v in judge_image(w, img, k, j, cfg, res):
            if v[:2] not in seen_sig:
                seen_sig.add(v[:2])
                viol.append(v)
        env.CLOCK.now = saved_now
    iolog.LOG.recording = True
    res.outcome('last-step:%s' % (w.outcomes[-1] if w.outcomes else '?'))
    return n, len(w.model.txns) > w.n0, viol


def run(rep, tier, seed, workers):
    if tier == 'quick':
        plan = [dict(prop='C01', kind='F', bufsize=8192, depth=3),
                dict(prop='C01', kind='F', bufsize=32, depth=2),
                dict(prop='C01', kind='F', bufsize=8192, depth=2,
                     start=RICH)]
    else:
        plan = [dict(prop='C01', kind='F', bufsize=8192, depth=4),
                dict(prop='C01', kind='F', bufsize=32, depth=3),
                dict(prop='C01', kind='F', bufsize=8192, depth=3,
                     start=RICH)]
    rep.rule = (
        'for every history over the alphabet (commit of new / modified / two '
        'objects, 9000-byte record, metadata up to 65535 bytes, empty, '
        'delete, undo, resolved conflict, restore with explicit tid, abort '
        'after store / after vote, reopen) on a real FileStorage over the '
        'recording file layer: every crash image of the ops issued by the '
        'last step = every op boundary over all files plus every byte cut of '
        'every write to Data.fs (writes > 600 bytes: first and last 160 '
        'offsets and every 1024th); each image is reopened read-write and '
        'compared with the model prefix; evaluations = images judged; '
        'non-trivial = history whose last step committed a transaction')
    states = 0
    for cfg in plan:
        depth = cfg.pop('depth')
        fps = seqx.explore(rep, MOD, cfg, depth, workers, seed)
        states += len(fps)
        rep.bounds['buf%d%s depth' % (
            cfg['bufsize'], ' from rich state' if cfg.get('start') else '')] \
            = depth
    rep.cov['states'] = states
    rep.assumptions = [
        'crash model: prefix of the issued write/truncate/rename sequence '
        'with a torn last write (the property\'s quantifier); no reordering '
        'of unsynced writes; the ack clause is checked by the fsync monitor',
        'a transaction in flight between the start of its vote and the '
        'return of tpc_finish may be present in full or absent in full']


def replay(w):
    viol = seqx.replay_history(MOD, w['witness'])
    for v in viol:
        print(v)
    sigs = {'C01.%s:%s' % (c, s) for c, s, d in viol}
    return w['signature'] not in sigs
