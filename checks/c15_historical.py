"""C15: historical connections read exactly the chosen past state and cannot
write.

All histories up to a depth over {modify x, create z (linked from the root),
modify z, undo the k-th newest transaction (incl. undo of a creation),
unlink + delete z at storage level} on a real FileStorage DB with
transactions 0.4 s apart (several per clock second); at every node a
historical connection is opened at every point - at / before every tid,
before tid+1, at / before datetimes between and exactly at transactions, in
naive and timezone-aware form - and every object is read, then more live
transactions are committed and everything is read again.  Writing through a
historical connection must fail and store nothing; a point later than the
newest transaction must be refused.
"""
import datetime
import os

import transaction

from mc import env, hclasses, seqx
from mc.battery import Exc, call, p64, u64

MOD = 'checks.c15_historical'
KINDS = ['modx', 'newz', 'modz', 'undo', 'delz']
TICK = 0.4


def make_spec(cfg):
    return dict(kinds=cfg.get('kinds') or KINDS)


class HistWorld:
    def __init__(self, kind='F'):
        env.reset_globals()
        from mc import dbworld
        dbworld.own_hash_order()
        self.kind = kind
        self.dir = env.new_dir('h')
        FS = env.mod('ZODB.FileStorage.FileStorage').FileStorage
        MS = env.mod('ZODB.MappingStorage').MappingStorage
        self.storage = FS(os.path.join(self.dir, 'Data.fs')) \
            if kind == 'F' else MS()
        self.db = env.mod('ZODB.DB').DB(self.storage)
        self.tm = transaction.TransactionManager()
        self.conn = self.db.open(self.tm)
        self.vcount = 0
        self.violations = []
        self.outcomes = []
        self.dead = False
        self.states = []        # [(tid, {name: value})] after each txn
        self.zgen = 0
        root = self.conn.root()
        x = hclasses.P()
        x.v = self.newval()
        root['x'] = x
        self.commit({'x': x.v})

    def newval(self):
        self.vcount += 1
        return self.vcount

    def cur(self):
        return dict(self.states[-1][1]) if self.states else {}

    def commit(self, state, note=None):
        env.CLOCK.now += TICK
        if note:
            self.tm.get().note(note)
        self.tm.commit()
        self.states.append((self.storage.lastTransaction(), dict(state),
                            note))

    def close(self):
        try:
            self.tm.abort()
            self.db.close()
        except Exception:
            pass
        env.rm_dir(self.dir)

    def bad(self, c, s, d):
        self.violations.append((c, s, d))

    def fingerprint(self):
        return (tuple((tuple(sorted(st)), n) for t, st, n in self.states),
                self.kind)

    def enabled(self, spec):
        st = self.cur()
        ops = []
        for k in spec['kinds']:
            if k == 'modx':
                ops.append(('modx',))
            elif k == 'newz' and 'z' not in st:
                ops.append(('newz',))
            elif k == 'modz' and 'z' in st:
                ops.append(('modz',))
            elif k == 'undo' and self.kind == 'F':
                n = len(self.states)
                ops += [('undo', i) for i in range(min(2, n - 1))]
            elif k == 'delz' and 'z' in st and self.kind == 'F':
                ops.append(('delz',))
        return ops

    def apply(self, op, spec=None):
        if self.dead:
            return 'dead'
        try:
            out = self._apply(op)
        except Exception as e:      # noqa: B902
            self.bad('error', '%s:%s' % (op[0], type(e).__name__),
                     dict(op=op, error=repr(e)[:300]))
            self.dead = True
            out = 'error'
        self.outcomes.append(out)
        return out

    def _apply(self, op):
        k = op[0]
        root = self.conn.root()
        st = self.cur()
        if k == 'modx':
            root['x'].v = st['x'] = self.newval()
            self.commit(st, 'modx')
            return 'commit'
        if k == 'newz':
            z = hclasses.P()
            z.v = self.newval()
            root['z'] = z
            st['z'] = z.v
            self.commit(st, 'newz')
            return 'commit'
        if k == 'modz':
            root['z'].v = st['z'] = self.newval()
            self.commit(st, 'modz')
            return 'commit'
        if k == 'delz':
            # unlink, then delete the record at storage level (external gc)
            z = root['z']
            oid, serial = z._p_oid, None
            z.v
            serial = z._p_serial
            del root['z']
            del st['z']
            self.commit(st, 'unlinkz')
            from mc import world
            t = world.TMD(b'', b'deletez')
            env.CLOCK.now += TICK
            s = self.storage
            s.tpc_begin(t)
            s.deleteObject(oid, serial, t)
            s.tpc_vote(t)
            s.tpc_finish(t)
            self.states.append((s.lastTransaction(), dict(st), 'deletez'))
            self.tm.abort()
            return 'delete'
        if k == 'undo':
            UE = env.mod('ZODB.POSException').UndoError
            tid, _, note = self.states[-1 - op[1]]
            # model: state before that transaction, if nothing it wrote was
            # written again later
            idx = len(self.states) - 1 - op[1]
            before = self.states[idx - 1][1]
            after = self.states[idx][1]
            changed = {n for n in set(before) | set(after)
                       if before.get(n) != after.get(n)}
            if note in ('newz', 'unlinkz'):
                changed.add('root')
            refused = note in ('deletez',)
            for t2, st2, note2 in self.states[idx + 1:]:
                b2 = self.states[[s[0] for s in self.states].index(t2) - 1][1]
                ch2 = {n for n in set(b2) | set(st2)
                       if b2.get(n) != st2.get(n)}
                if note2 in ('newz', 'unlinkz') or (
                        note2 and note2.startswith('undo')
                        and set(b2) != set(st2)):
                    ch2.add('root')
                if ch2 & changed:
                    refused = True
                if note2 == 'deletez' and 'z' in changed:
                    refused = True
            from base64 import encodebytes
            env.CLOCK.now += TICK
            try:
                self.db.undo(encodebytes(tid).rstrip(), self.tm.get())
                self.tm.get().note('undo-' + (note or ''))
                self.tm.commit()
                out = 'ok'
            except UE:
                self.tm.abort()
                out = 'refused'
            if (out == 'refused') != refused:
                # the model of undo is C06's subject; here only follow it
                self.dead = True
                self.skip = True
                return 'undo-model-mismatch'
            if out == 'refused':
                return 'undo-refused'
            st = self.cur()
            for n in changed - {'root'}:
                if n in before:
                    st[n] = before[n]
                else:
                    st.pop(n, None)
            self.states.append((self.storage.lastTransaction(), st,
                                'undo-' + (note or '')))
            self.tm.abort()
            return 'undo'
        raise ValueError(op)

    # -- oracle -----------------------------------------------------------
    def points(self):
        """(label, kwargs for db.open, index of the state shown or
        'future')."""
        from persistent.TimeStamp import TimeStamp
        tids = [t for t, _, _ in self.states]
        pts = []
        for i, t in enumerate(tids):
            pts.append(('at-tid', dict(at=t), i))
            if i > 0:
                pts.append(('before-tid', dict(before=t), i - 1))
            pts.append(('before-tid+1', dict(before=p64(u64(t) + 1)), i))
            tt = TimeStamp(t).timeTime()
            for form in ('naive', 'aware', 'aware+0530', 'aware-0800'):
                def dt(x, form=form):
                    if form == 'naive':
                        return datetime.datetime.utcfromtimestamp(x)
                    # the same instant written in another zone
                    tz = {'aware': datetime.timezone.utc,
                          'aware+0530': datetime.timezone(
                              datetime.timedelta(hours=5, minutes=30)),
                          'aware-0800': datetime.timezone(
                              datetime.timedelta(hours=-8))}[form]
                    return datetime.datetime.fromtimestamp(x, tz)
                # between this transaction and the next
                pts.append(('at-datetime-%s' % form,
                            dict(at=dt(tt + TICK / 2)),
                            i if i + 1 < len(tids) else 'future'))
                if i > 0:
                    pts.append(('before-datetime-%s' % form,
                                dict(before=dt(tt - TICK / 2)), i - 1))
        last = tids[-1]
        pts.append(('future-tid', dict(at=p64(u64(last) + 1)), 'future'))
        pts.append(('future-before', dict(before=p64(u64(last) + 2)),
                    'future'))
        return pts

    def read(self, conn):
        root = conn.root()
        return {k: root[k].v for k in sorted(root.keys())}

    def check(self, res=None):
        n = 0
        ROE = (env.mod('ZODB.POSException').ReadOnlyHistoryError,
               env.mod('ZODB.POSException').ReadOnlyError)
        pts = self.points()
        opened = []
        for phase in ('first', 'after-more-commits'):
            for label, kw, idx in pts:
                n += 1
                tmh = transaction.TransactionManager()
                c = call(self.db.open, tmh, **kw)
                if idx == 'future':
                    if phase == 'after-more-commits':
                        # no longer in the future now
                        if not isinstance(c, Exc):
                            c.close()
                        continue
                    if not (isinstance(c, Exc) and c.name == 'ValueError'):
                        self.bad('future', '%s:%s' % (
                            label, c.name if isinstance(c, Exc)
                            else 'accepted'), dict(point=repr(kw)))
                        if not isinstance(c, Exc):
                            c.close()
                    continue
                if isinstance(c, Exc):
                    self.bad('state', '%s:open:%s' % (label, c.name),
                             dict(point=repr(kw), got=repr(c)))
                    continue
                try:
                    want = self.states[idx][1]
                    got = call(self.read, c)
                    if got != want:
                        self.bad('state', '%s:%s' % (label, phase), dict(
                            point=repr(kw), expected=want, got=repr(got),
                            history=[s[2] for s in self.states]))
                    if phase == 'first' and label == 'at-tid':
                        # writing through it must fail and store nothing
                        n += 1
                        last = self.storage.lastTransaction()
                        try:
                            c.root()['x'].v = -1
                            tmh.commit()
                            r = 'committed'
                        except ROE:
                            r = 'refused'
                        except Exception as e:      # noqa: B902
                            r = type(e).__name__
                        tmh.abort()
                        if r != 'refused' or \
                                self.storage.lastTransaction() != last:
                            self.bad('ro', 'write:%s' % r, dict(
                                point=repr(kw)))
                finally:
                    tmh.abort()
                    c.close()
            if phase == 'first':
                # more live commits while nothing historical is open, and
                # with one historical connection kept open across them
                keep_tm = transaction.TransactionManager()
                keep = self.db.open(keep_tm, at=self.states[0][0])
                keep_want = self.states[0][1]
                keep_got0 = call(self.read, keep)
                root = self.conn.root()
                root['x'].v = self.newval()
                env.CLOCK.now += TICK
                self.tm.commit()
                root['later'] = hclasses.P()
                root['later'].v = self.newval()
                env.CLOCK.now += TICK
                self.tm.commit()
                n += 1
                keep_got = call(self.read, keep)
                if keep_got0 != keep_want or keep_got != keep_want:
                    self.bad('state', 'kept-open-across-commits', dict(
                        expected=keep_want, before=repr(keep_got0),
                        after=repr(keep_got)))
                keep_tm.abort()
                keep.close()
        return n


def build(cfg, hist, spec):
    w = HistWorld(cfg['kind'])
    for op in hist:
        w.apply(tuple(op))
    return w


def node(w, hist, cfg, res):
    if w.dead:
        return 0, False, []
    nv = len(w.violations)
    n = w.check()
    if hist:
        res.outcome(w.outcomes[-1])
    viol = w.violations[nv:]
    w.violations = w.violations[:nv]
    res.clause('C15.state', n)
    return n, len(w.states) >= 3, viol


def multi_scenario(pattern, kinds):
    """Two databases of one multi-database, commits interleaved as in
    `pattern` (a string over '1' / '2'); a historical connection to either
    one must show BOTH databases as of the chosen point, through
    get_connection and through a cross-database reference."""
    env.reset_globals()
    from mc import dbworld
    dbworld.own_hash_order()
    viol = []
    d = env.new_dir('hm')
    FS = env.mod('ZODB.FileStorage.FileStorage').FileStorage
    MS = env.mod('ZODB.MappingStorage').MappingStorage
    DB = env.mod('ZODB.DB').DB
    ROE = (env.mod('ZODB.POSException').ReadOnlyHistoryError,
           env.mod('ZODB.POSException').ReadOnlyError)
    dbs = {}
    sts = {}
    for name, k in zip('12', kinds):
        sts[name] = FS(os.path.join(d, 'D%s.fs' % name)) if k == 'F' \
            else MS(name)
    db = {n: DB(sts[n], databases=dbs, database_name=n) for n in '12'}
    wit = dict(multi=dict(pattern=pattern, kinds=list(kinds)))
    n = 0

    def bad(c, s, det):
        viol.append((c, s, dict(det, **wit)))
    try:
        tm = transaction.TransactionManager()
        c1 = db['1'].open(tm)
        c2 = c1.get_connection('2')
        val = [0]
        hist = {'1': [], '2': []}      # [(tid, value)]
        objs = {}
        for name, c in (('2', c2), ('1', c1)):
            o = hclasses.P()
            val[0] += 1
            o.v = val[0]
            c.root()['o'] = o
            objs[name] = o
        c2.add(objs['2'])
        c1.root()['other'] = objs['2']      # cross-database reference
        env.CLOCK.now += TICK
        tm.commit()
        for name in '12':
            hist[name].append((sts[name].lastTransaction(), objs[name].v))
        for name in pattern + '12':
            val[0] += 1
            objs[name].v = val[0]
            env.CLOCK.now += TICK
            tm.commit()
            hist[name].append((sts[name].lastTransaction(), val[0]))
        tids = sorted({t for h in hist.values() for t, v in h})

        def expect(name, before):
            vals = [v for t, v in hist[name] if t < before]
            return vals[-1] if vals else None
        points = []
        for t in tids:
            points.append(('at-tid', dict(at=t), p64(u64(t) + 1)))
            points.append(('before-tid', dict(before=t), t))
            points.append(('before-tid+1', dict(before=p64(u64(t) + 1)),
                           p64(u64(t) + 1)))
        # a point later than the newest transaction of either database is
        # "in the future" there and refused: not part of this family
        horizon = p64(u64(min(h[-1][0] for h in hist.values())) + 1)
        for label, kw, before in points:
            if before > horizon:
                continue
            for primary, secondary in (('1', '2'), ('2', '1')):
                if expect(primary, before) is None or \
                        expect(secondary, before) is None:
                    continue        # before the objects existed
                n += 1
                tmh = transaction.TransactionManager()
                ch = call(db[primary].open, tmh, **kw)
                if isinstance(ch, Exc):
                    bad('state', 'multi:%s:open:%s' % (label, ch.name),
                        dict(point=repr(kw), primary=primary))
                    continue
                try:
                    got_p = call(lambda: ch.root()['o'].v)
                    got_s = call(lambda: ch.get_connection(
                        secondary).root()['o'].v)
                    want_p = expect(primary, before)
                    want_s = expect(secondary, before)
                    if got_p != want_p:
                        bad('state', 'multi:%s:primary' % label, dict(
                            point=repr(kw), primary=primary,
                            expected=want_p, got=repr(got_p)))
                    if got_s != want_s:
                        bad('state', 'multi:%s:secondary' % label, dict(
                            point=repr(kw), primary=primary,
                            expected=want_s, got=repr(got_s)))
                    if primary == '1':
                        got_x = call(lambda: ch.root()['other'].v)
                        if got_x != want_s:
                            bad('state', 'multi:%s:cross-reference' % label,
                                dict(point=repr(kw), expected=want_s,
                                     got=repr(got_x)))
                    if label == 'at-tid':
                        # writing through the secondary connection fails
                        n += 1
                        last = sts[secondary].lastTransaction()
                        try:
                            ch.get_connection(secondary).root()['o'].v = -1
                            tmh.commit()
                            r = 'committed'
                        except ROE:
                            r = 'refused'
                        except Exception as e:      # noqa: B902
                            r = type(e).__name__
                        tmh.abort()
                        if r != 'refused' or \
                                sts[secondary].lastTransaction() != last:
                            bad('ro', 'multi:write-secondary:%s' % r,
                                dict(point=repr(kw), primary=primary))
                finally:
                    tmh.abort()
                    ch.close()
    except Exception as e:      # noqa: B902
        import traceback
        bad('error', 'multi:%s' % type(e).__name__,
            dict(error=repr(e)[:300], where=traceback.format_exc()[-400:]))
    finally:
        try:
            tm.abort()
            for x in db.values():
                x.close()
        except Exception:
            pass
        env.rm_dir(d)
    return n, viol


def multi_patterns(k):
    import itertools
    return [''.join(p) for ln in range(1, k + 1)
            for p in itertools.product('12', repeat=ln)]


def multi_task(kinds, k):
    from mc import schedx
    env.install()
    res = schedx._new_res()
    seen = set()
    for pattern in multi_patterns(k):
        n, viol = multi_scenario(pattern, kinds)
        res['cov']['traces_validated_against_impl'] += 1
        res['cov']['states'] += 1
        res['cov']['transitions'] += len(pattern) + 3
        res['cov']['evaluations'] += n
        res['cov']['distinct_nontrivial'] += 1
        res['outcomes']['multi-database'] = \
            res['outcomes'].get('multi-database', 0) + 1
        for c, s, dd in viol:
            fs = 'C15.%s:%s' % (c, s)
            if fs not in seen:
                seen.add(fs)
                res['violations'].append(('C15.' + c, fs, dict(
                    multi=dd['multi']), dd, 1))
    return res


def run(rep, tier, seed, workers):
    depth = 6 if tier == 'quick' else 8
    rep.rule = (
        'all histories up to the depth over {modify x, create z, modify z, '
        'undo the 1st / 2nd newest transaction, unlink + delete z} with '
        'transactions 0.4 s apart; at every node every historical point '
        '(at tid, before tid, before tid+1, at / before a datetime between '
        'transactions, naive, aware UTC and aware in two other zones) is opened and all objects read, '
        'before and after two more live commits, plus one historical '
        'connection kept open across them; plus two databases of one '
        'multi-database with every interleaving pattern of their commits up '
        'to the stated length: a historical connection to either one, at / '
        'before every tid of both, must show both databases as of that '
        'point (get_connection, cross-database reference) and refuse writes '
        'through the secondary connection; non-trivial = history with at '
        'least three transactions')
    states = 0
    for kind in ('F', 'M'):
        cfg = dict(prop='C15', kind=kind)
        fps = seqx.explore(rep, MOD, cfg, depth, workers, seed, split=2)
        states += len(fps)
        rep.bounds['%s depth' % kind] = depth
    from mc import par
    k = 4 if tier == 'quick' else 7
    before = rep.cov.get('states', 0)
    par.run_tasks([(MOD, 'multi_task', (kinds, k))
                   for kinds in ('FF', 'FM', 'MF')], workers, rep, seed)
    rep.bounds['multi-database interleaving length'] = k
    rep.cov['states'] = max(states, 1) + rep.cov.get('states', 0) - before
    rep.assumptions = [
        'no pack in the histories (the property excludes points older than '
        'the last pack)']


def replay(w):
    if 'multi' in w['witness']:
        m = w['witness']['multi']
        n, viol = multi_scenario(m['pattern'], tuple(m['kinds']))
    else:
        viol = seqx.replay_history(MOD, w['witness'])
    for v in viol:
        print(v)
    sigs = {'C15.%s:%s' % (c, s) for c, s, d in viol}
    return w['signature'] not in sigs
