"""C18: repozo recover reproduces the backed-up data file byte for byte.

All histories up to a depth over {commit, pack, backup with every subset of
full / quick / gzip / kill-old, backup while a transaction sits between vote
and finish} on a live FileStorage with a virtual clock (every step has its
own second), through repozo.main().  After every history: recover at every
date in {each backup time, one second before / after, none}, with and without
--with-verify, and compare the output byte for byte with the committed prefix
recorded when the selected backup ran; open it with the restored index;
verify (full and quick) the intact repository.  For fixed histories every
file of the current chain is removed, cut at every length and altered at
every byte: full verification must fail iff the decoded payload differs from
the recorded one, quick verification iff the decoded size differs.
"""
import contextlib
import gzip
import hashlib
import io
import itertools
import os
import time as _time

from mc import battery, env, par, schedx, seqx, world
from mc.battery import Exc, call, p64

MOD = 'checks.c18_repozo'
FLAGSETS = [(), ('F',), ('Q',), ('z',), ('k',), ('F', 'z'), ('F', 'k'),
            ('Q', 'z'), ('Q', 'k'), ('F', 'Q', 'z', 'k')]


def make_spec(cfg):
    return dict(flagsets=cfg.get('flagsets') or FLAGSETS[:6],
                inflight=cfg.get('inflight', True),
                packinside=cfg.get('packinside', False))


def repozo():
    return env.mod('ZODB.scripts.repozo')


def run_main(argv):
    """repozo.main(argv) -> None or the exit message."""
    with contextlib.redirect_stdout(io.StringIO()), \
            contextlib.redirect_stderr(io.StringIO()):
        try:
            repozo().main(argv)
            return None
        except SystemExit as e:
            return 'exit:%s' % (e.code,)
        except Exception as e:      # noqa: B902
            return 'error:%s:%s' % (type(e).__name__, e)


def stamp(t):
    return '%04d-%02d-%02d-%02d-%02d-%02d' % _time.gmtime(t)[:6]


class RepoWorld:
    def __init__(self, reponame='repo'):
        env.reset_globals()
        self.w = world.World('F')
        self.spec = world.Spec(['new', 'mod'], oids=(1, 2, 3, 4, 5, 6))
        self.repo = os.path.join(self.w.dir, reponame)
        os.mkdir(self.repo)
        self.path = self.w.path
        self.violations = []
        self.outcomes = []
        self.dead = False
        self.backups = []       # (time, snapshot bytes, flags, made_file)
        self.kill_time = None   # backups before this are gone
        self.ncommit = 0
        self.w.apply(('new', 1), self.spec)

    # seqx protocol
    @property
    def model(self):
        return self.w.model

    def fingerprint(self):
        with open(self.path, 'rb') as f:
            data = f.read()
        return (hashlib.md5(data).hexdigest(),
                tuple((b[2], b[3]) for b in self.backups))

    def close(self):
        self.w.close()

    def bad(self, c, s, d):
        self.violations.append((c, s, d))

    def enabled(self, spec):
        ops = [('commit',)]
        if self.w.model.txns:
            ops.append(('pack',))
        for fl in spec['flagsets']:
            ops.append(('backup',) + tuple(fl))
        if spec['inflight']:
            ops.append(('backup-inflight',))
            ops.append(('backup-inflight', 'Q'))
            # the wall clock moves on by a second at every reading while
            # the backup runs
            ops.append(('backup-ticking',))
            ops.append(('backup-ticking', 'F'))
        if spec.get('packinside') and self.w.model.txns:
            # a pack completes while the backup runs, after repozo has
            # looked at the data file and before it copies from it
            ops.append(('backup-pack-inside',))
            ops.append(('backup-pack-inside', 'F'))
        if self.backups:
            # another backup within the same second as the last step
            ops.append(('backup-same-second',))
            ops.append(('backup-same-second', 'F'))
        return ops

    def committed_prefix(self):
        # the end of the last finished transaction, found by parsing the
        # file (not by asking the code under test)
        with open(self.path, 'rb') as f:
            data = f.read()
        from mc import fsparse
        return data[:fsparse.committed_end(data)]

    def apply(self, op, spec=None):
        if self.dead:
            return 'dead'
        try:
            out = self._apply(op)
        except Exception as e:      # noqa: B902
            self.bad('error', '%s:%s' % (op[0], type(e).__name__),
                     dict(op=op, error=repr(e)[:300]))
            self.dead = True
            out = 'error'
        self.outcomes.append(out)
        return out

    def _apply(self, op):
        k = op[0]
        w = self.w
        if k == 'commit':
            self.ncommit += 1
            live = [o for o in self.spec.oids if w.model.live(p64(o))]
            if self.ncommit % 2 and len(live) < 6:
                return w.apply(('new', len(live) + 1), self.spec)
            return w.apply(('mod', live[self.ncommit % len(live)]),
                           self.spec)
        if k == 'pack':
            return w.apply(('pack',), self.spec)
        if k in ('backup', 'backup-inflight', 'backup-ticking',
                 'backup-same-second', 'backup-pack-inside'):
            flags = op[1:]
            if k != 'backup-same-second':
                w.tick()
            t = None
            if k == 'backup-inflight':
                # a writer between vote and finish
                from mc import hclasses
                t = world.TMD(b'inflight')
                s = w.storage
                s.tpc_begin(t)
                s.store(p64(9), b'\0' * 8, hclasses.mkrec('P', 999), '', t)
                s.tpc_vote(t)
            snap = self.committed_prefix()
            before = set(os.listdir(self.repo))
            argv = ['-B', '-r', self.repo, '-f', self.path] + \
                ['-' + f for f in flags]
            if k == 'backup-ticking':
                env.CLOCK.auto = 1.0
            rz = repozo()
            orig_copyfile = rz.copyfile
            if k == 'backup-pack-inside':
                def copyfile(*a, **kw):
                    rz.copyfile = orig_copyfile
                    w.apply(('pack',), self.spec)
                    return orig_copyfile(*a, **kw)
                rz.copyfile = copyfile
            try:
                r = run_main(argv)
            finally:
                env.CLOCK.auto = 0.0
                rz.copyfile = orig_copyfile
            if k == 'backup-pack-inside':
                made = sorted(set(os.listdir(self.repo)) - before)
                data_made = [f for f in made if rz.is_data_file(f)]
                if r is not None:
                    # the run may fail, if it leaves no backup file behind
                    if data_made:
                        self.bad('backup', 'failed-run-left-data-file',
                                 dict(argv=argv, made=data_made,
                                      result=r[:120]))
                    for f in made:
                        # temporary leftovers are not part of the repository
                        if not rz.is_data_file(f):
                            os.unlink(os.path.join(self.repo, f))
                    return 'backup-failed-cleanly'
                # it went through: it is a backup of what repozo saw when
                # it opened the data file
            if t is not None:
                w.storage.tpc_abort(t)
            made = sorted(set(os.listdir(self.repo)) - before)
            if r is not None and k == 'backup-same-second' and \
                    'Cannot overwrite' in r:
                # file names have a resolution of a second: refusing is
                # fine, if nothing was written
                if made:
                    self.bad('backup', 'refused-but-wrote-files',
                             dict(argv=argv, made=made))
                return 'backup-refused'
            if r is not None:
                self.bad('backup', 'failed:%s' % r.split(':')[1][:30],
                         dict(argv=argv, result=r))
                self.dead = True
                return 'backup-failed'
            data_files = [f for f in made if f.endswith(
                ('.fs', '.fsz', '.deltafs', '.deltafsz'))]
            full = any(f.endswith(('.fs', '.fsz')) for f in data_files)
            # the moment of the backup is the one in its file name (the
            # clock may have moved on while it ran)
            when = env.CLOCK.now
            if data_files:
                import calendar
                when = calendar.timegm(_time.strptime(
                    data_files[0].split('.')[0], '%Y-%m-%d-%H-%M-%S'))
            self.backups.append((when, snap, flags, bool(made)))
            if 'k' in flags and full:
                self.kill_time = when
            return 'backup-%s' % ('none' if not data_files else
                                  'full' if full else 'incremental')
        raise ValueError(op)

    # -- oracle -----------------------------------------------------------
    def expected_at(self, date):
        """Snapshot that recovery as of `date` (None = now) must produce, or
        None if nothing at or before it is still held."""
        held = [b for b in self.backups
                if self.kill_time is None or b[0] >= self.kill_time]
        cands = [b for b in held if date is None or b[0] <= date]
        return cands[-1][1] if cands else None

    def check(self, res=None):
        n = 0
        if not self.backups:
            return 0
        times = sorted({b[0] for b in self.backups})
        dates = [None]
        for t in times:
            dates += [t - 1, t, t + 1]
        out = os.path.join(self.w.dir, 'recovered.fs')
        FS = env.mod('ZODB.FileStorage.FileStorage').FileStorage
        for date in dates:
            want = self.expected_at(date)
            for verify in (False, True):
                n += 1
                for p in (out, out + '.index', out + '.part', out + '.lock',
                          out + '.tmp'):
                    if os.path.exists(p):
                        os.unlink(p)
                argv = ['-R', '-r', self.repo, '-o', out]
                if date is not None:
                    argv += ['-D', stamp(date)]
                if verify:
                    argv += ['-w']
                r = run_main(argv)
                tag = 'verify' if verify else 'plain'
                if want is None:
                    if r is None:
                        self.bad('bytes', 'recovered-without-backup:%s' % tag,
                                 dict(argv=argv))
                    continue
                if r is not None:
                    self.bad('bytes', 'recover-failed:%s:%s' % (
                        tag, r.split(':')[0]), dict(argv=argv, result=r))
                    continue
                with open(out, 'rb') as f:
                    got = f.read()
                if got != want:
                    self.bad('bytes', 'differs:%s:%s' % (
                        tag, 'shorter' if len(got) < len(want) else
                        'longer' if len(got) > len(want) else 'content'),
                        dict(argv=argv, expected=len(want), got=len(got)))
                    continue
                # every backup saves the index next to its data file, so a
                # recovery comes with an index
                if not os.path.exists(out + '.index'):
                    self.bad('index', 'not-restored:%s' % tag,
                             dict(argv=argv))
                # usable with the restored index: same answers as without
                if not verify:
                    n += 1
                    m = self.w.model
                    obs = []
                    for use_index in (True, False):
                        if not use_index and os.path.exists(out + '.index'):
                            os.unlink(out + '.index')
                        s = call(FS, out, read_only=True)
                        if isinstance(s, Exc):
                            self.bad('index', 'open:%s' % s.name,
                                     dict(argv=argv, with_index=use_index))
                            obs.append(None)
                            continue
                        obs.append(battery.observe(
                            s, m.oids(), m.tids(), 'F', iter_level=0))
                        used = getattr(s, '_used_index', 0)
                        s.close()
                        if use_index and res is not None:
                            res.outcome('restored-index-%s' % (
                                'used' if used else 'ignored'))
                    if obs[0] is not None and obs[0] != obs[1]:
                        q = [k for k in obs[1] if obs[0].get(k) != obs[1][k]]
                        self.bad('index', 'battery-differs:%s' % q[0][0],
                                 dict(argv=argv, query=q[0]))
        # an intact repository verifies
        for quick in (False, True):
            n += 1
            argv = ['-V', '-r', self.repo] + (['-Q'] if quick else [])
            r = run_main(argv)
            if self.expected_at(None) is None:
                continue
            if r is not None:
                self.bad('verify', 'intact-repository-fails:%s' % (
                    'quick' if quick else 'full'), dict(result=r))
        return n


def build(cfg, hist, spec):
    w = RepoWorld(cfg.get('reponame', 'repo'))
    for op in list(cfg.get('start', [])) + list(hist):
        w.apply(tuple(op))
    return w


# a state whose newest increment is empty: a quick backup found the file
# longer than the repository, but only by an unfinished transaction
EMPTY_INC = [['commit'], ['commit'], ['backup', 'F'],
             ['backup-inflight', 'Q']]


def node(w, hist, cfg, res):
    if w.dead:
        return 0, False, []
    nv = len(w.violations)
    n = w.check(res)
    if hist:
        res.outcome(w.outcomes[-1])
    viol = w.violations[nv:]
    w.violations = w.violations[:nv]
    res.clause('C18.bytes', n)
    return n, len(w.backups) >= 2, viol


# -------------------------------------------------------- verify damage

def decoded(path):
    """Payload of a repository data file, or None if it cannot be read."""
    try:
        if path.endswith('z'):
            with gzip.open(path, 'rb') as f:
                return f.read()
        with open(path, 'rb') as f:
            return f.read()
    except Exception:
        return None


def damage_task(hist):
    env.install()
    res = schedx._new_res()
    w = build({}, [tuple(o) for o in hist], None)
    seen = set()
    try:
        rz = repozo()
        # the current chain, from the .dat of the newest full backup
        names = sorted(f for f in os.listdir(w.repo) if rz.is_data_file(f))
        fulls = [f for f in names if f.endswith(('.fs', '.fsz'))]
        if not fulls:
            return res
        chain = [f for f in names if f >= fulls[-1]]
        recorded = {f: decoded(os.path.join(w.repo, f)) for f in chain}
        for fname in chain:
            p = os.path.join(w.repo, fname)
            with open(p, 'rb') as f:
                orig = f.read()
            cases = [('missing', None), ('grow', orig + b'\0' * 5),
                     ('grow', orig + orig[-9:])]
            cases += [('cut', orig[:k]) for k in range(len(orig))]
            cases += [('flip', orig[:k] + bytes([orig[k] ^ 0x5a])
                       + orig[k + 1:]) for k in range(len(orig))]
            for kind, content in cases:
                if content is None:
                    os.unlink(p)
                else:
                    with open(p, 'wb') as f:
                        f.write(content)
                now = decoded(p) if content is not None else None
                for quick in (False, True):
                    res['cov']['evaluations'] += 1
                    r = run_main(['-V', '-r', w.repo]
                                 + (['-Q'] if quick else []))
                    failed = r is not None
                    if now is None:
                        must_fail = True
                    elif quick:
                        must_fail = len(now) != len(recorded[fname])
                    else:
                        must_fail = now != recorded[fname]
                    if failed != must_fail:
                        fs = 'C18.verify:%s:%s:%s:%s' % (
                            'quick' if quick else 'full', kind,
                            'gz' if fname.endswith('z') else 'plain',
                            'accepted-damage' if must_fail
                            else 'rejected-intact')
                        if fs not in seen:
                            seen.add(fs)
                            res['violations'].append((
                                'C18.verify', fs,
                                dict(damage_history=[list(o) for o in hist]),
                                dict(file=fname, kind=kind,
                                     length=len(content or b''),
                                     result=r), 1))
                res['cov']['distinct_nontrivial'] += 1
            with open(p, 'wb') as f:
                f.write(orig)
        res['cov']['states'] += 1
        res['cov']['traces_validated_against_impl'] += 1
        res['outcomes']['damage-chain-%d-files' % len(chain)] = 1
    finally:
        w.close()
    return res


DAMAGE_HISTS = [
    [('backup',), ('commit',), ('backup',), ('commit',), ('backup',)],
    [('backup', 'z'), ('commit',), ('backup', 'z')],
    [('backup', 'F'), ('commit',), ('backup', 'Q'), ('commit',),
     ('backup', 'Q', 'z')],
    # two chains: the newest full backup has an older one to fall back to
    [('backup', 'F'), ('commit',), ('backup',), ('commit',), ('backup', 'F'),
     ('commit',), ('backup',)],
    [('backup', 'F'), ('commit',), ('backup', 'F')],
    # chains that end in / contain an empty increment
    [('backup', 'F'), ('backup-inflight',)],
    [('backup', 'F', 'z'), ('backup-inflight', 'z'), ('commit',),
     ('backup', 'z')],
]


def run(rep, tier, seed, workers):
    depth = 4 if tier == 'quick' else 5
    rep.rule = (
        'all histories up to the depth over {commit, pack, backup with flag '
        'sets (none, F, Q, z, k, Fz; all 10 in the thorough tier), backup '
        'while a transaction is between vote and finish (plain and quick), '
        'backup during which the clock moves on one second at every '
        'reading (plain and full), backup within the same second as the '
        'step before (plain and full; it may be refused)} '
        'through repozo.main with a virtual clock, from the initial state '
        'and (plain and quick backups only) from a state whose newest '
        'increment is empty; after every history: '
        'recover at every date in {none, each backup second, +-1 s} with and '
        'without --with-verify compared byte for byte with the committed '
        'prefix recorded at the selected backup, opened with the restored '
        'index, repository verified full and quick; for 7 fixed histories '
        '(two with an older chain behind the current one, two with an empty '
        'increment) '
        'every chain file removed / cut at every length / altered at every '
        'byte and verified; non-trivial = history with at least two backups')
    cfg = dict(prop='C18', flagsets=[list(f) for f in (
        FLAGSETS[:6] if tier == 'quick' else FLAGSETS)])
    fps = seqx.explore(rep, MOD, cfg, depth, workers, seed, split=2)
    cfg2 = dict(prop='C18', flagsets=[[], ['Q']], inflight=False,
                start=EMPTY_INC)
    fps2 = seqx.explore(rep, MOD, cfg2, depth - 1, workers, seed, split=1)
    # a pack that completes in the middle of a backup run
    cfg4 = dict(prop='C18', flagsets=[[], ['F']], inflight=False,
                packinside=True)
    fps4 = seqx.explore(rep, MOD, cfg4, depth - 1, workers, seed, split=1)
    rep.bounds['depth with a pack inside a backup run'] = depth - 1
    # a repository path with a blank in it
    cfg3 = dict(prop='C18', flagsets=[[], ['Q'], ['z']], inflight=False,
                reponame='my repo')
    fps3 = seqx.explore(rep, MOD, cfg3, depth - 1, workers, seed, split=1)
    rep.bounds['depth with a blank in the repository path'] = depth - 1
    rep.cov['states'] = max(len(fps) + len(fps2) + len(fps3) + len(fps4), 1)
    rep.bounds['history depth'] = depth
    rep.bounds['depth after commit, commit, full backup, quick backup with '
               'a transaction in progress'] = depth - 1
    tasks = [(MOD, 'damage_task', ([list(o) for o in h],))
             for h in DAMAGE_HISTS]
    par.run_tasks(tasks, workers, rep, seed)
    rep.assumptions = [
        '"content differs" is decided with the same gzip module repozo uses',
        '"any backup file" = any data file of the chain that -V reads (the '
        'newest full backup and its incrementals)']


def replay(w):
    wit = w['witness']
    if 'damage_history' in wit:
        r = damage_task(wit['damage_history'])
        viol = [(v[1], v[3]) for v in r['violations']]
        sigs = {v[0] for v in viol}
    else:
        viol = seqx.replay_history(MOD, wit)
        sigs = {'C18.%s:%s' % (c, s) for c, s, d in viol}
    for v in viol:
        print(v)
    return w['signature'] not in sigs
