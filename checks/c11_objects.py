"""C11: in-memory objects follow the outcome of their transaction.

All operation sequences up to a depth on a real connection (plus an observer
connection and a rival committer): modify existing / new objects, link a new
object from the root (implicit add), explicit add, unlink, commit, abort,
commits that fail at store (conflict), at another participant's vote and in
the storage's tpc_finish, close + reopen.  After every step every tracked
object is compared with a reference model: ownership (_p_jar/_p_oid), value,
change flags; after a commit the stored set and the single tid; the observer
sees exactly the committed state.
"""
from mc import connworld, env, seqx

MOD = 'checks.c11_objects'
KINDS = ['mod', 'link', 'add', 'unlink', 'commit', 'abort', 'rival',
         'commit-vote-fail', 'commit-finish-fail', 'close']
# a new object that is reachable only through an existing object, whose
# store can fail after the new object was given its oid
LINKA = ['linka', 'link', 'add', 'mod', 'rival', 'commit',
         'commit-vote-fail', 'commit-unpicklable', 'abort']


def make_spec(cfg):
    return dict(kinds=cfg.get('kinds') or KINDS,
                objects=cfg.get('objects', ('a', 'n')),
                max_handles=cfg.get('max_handles', 2))


def build(cfg, hist, spec):
    w = connworld.ConnWorld(cfg['kind'])
    for op in hist:
        w.apply(tuple(op))
    w.flavor = 'M'
    w.path = None
    w.next_tick = 0
    w.storage_model = None
    return w


def node(w, hist, cfg, res):
    if w.dead:
        return 0, False, []
    nv = len(w.violations)
    n = w.check()
    if hist:
        res.outcome(w.outcomes[-1])
    viol = w.violations[nv:]
    w.violations = w.violations[:nv]
    res.clause('%s.state' % cfg['prop'], n)
    return n, len(hist) >= 2, viol


# ----------------------------------------------- joins that are refused

class JoinWorld:
    """Two databases whose connections share ONE transaction manager (in
    explicit or implicit mode).  A modification can be refused by the
    transaction machinery - outside a transaction in explicit mode, or while
    a failed transaction has not been aborted yet - and must then leave the
    object and the connection as they were: later transactions commit and
    abort as usual."""

    def __init__(self, explicit, multi=False):
        import transaction
        env.reset_globals()
        from mc import dbworld, hclasses
        self._hclasses = hclasses
        dbworld.own_hash_order()
        MS = env.mod('ZODB.MappingStorage').MappingStorage
        DB = env.mod('ZODB.DB').DB
        self.explicit = explicit
        self.multi = multi
        if multi:
            # one multi-database: 'a' is the primary connection, 'b' the
            # secondary one it hands out
            reg = {}
            self.dbs = {n: DB(MS(n), databases=reg, database_name=n)
                        for n in 'ab'}
        else:
            self.dbs = {n: DB(MS(n)) for n in 'ab'}
        self.violations = []
        self.dead = False
        self.vcount = 0
        self.committed = {}
        for n, db in self.dbs.items():
            tm0 = transaction.TransactionManager()
            c0 = db.open(tm0)
            o = hclasses.P()
            o.v = self.newval()
            c0.root()['o'] = o
            env.CLOCK.now += 1
            tm0.commit()
            c0.close()
            self.committed[n] = o.v
        self.current = dict(self.committed)
        self.tm = transaction.TransactionManager(explicit=explicit)
        if multi:
            ca = self.dbs['a'].open(self.tm)
            self.conns = {'a': ca, 'b': ca.get_connection('b')}
        else:
            self.conns = {n: db.open(self.tm) for n, db in self.dbs.items()}
        self.objs = {}
        # one new object per connection, for add(): [object, owned,
        # committed]
        self.news = {n: [hclasses.P(), False, False] for n in 'ab'}
        if explicit:
            self.tm.begin()
        for n, c in self.conns.items():
            self.objs[n] = c.root()['o']
            self.objs[n].v
        self.tm.abort()
        self.state = 'none' if explicit else 'active'
        self.otm = transaction.TransactionManager()
        self.obs = {n: db.open(self.otm) for n, db in self.dbs.items()}
        self.nsteps = 0

    def newval(self):
        self.vcount += 1
        return self.vcount

    def close(self):
        try:
            self.tm.abort()
            self.otm.abort()
            for db in self.dbs.values():
                db.close()
        except Exception:
            pass

    def bad(self, c, s, d):
        self.violations.append((c, s, d))

    def enabled(self):
        ops = []
        if self.explicit and self.state == 'none':
            ops.append(('begin',))
        ops += [('mod', 'a'), ('mod', 'b')]
        ops += [('add', n) for n in 'ab' if not self.news[n][1]]
        if self.state == 'active':
            ops += [('commit',), ('commit-fail',)]
        if self.state in ('active', 'failed'):
            ops.append(('abort',))
        if self.multi:
            ops.append(('close',))
        return ops

    def apply(self, op):
        from transaction.interfaces import (NoTransaction,
                                            TransactionFailedError)
        k = op[0]
        env.CLOCK.now += 1
        self.nsteps += 1
        idle = 'none' if self.explicit else 'active'
        try:
            if k == 'begin':
                self.tm.begin()
                self.state = 'active'
            elif k == 'mod':
                n = op[1]
                v = self.newval()
                want = {'none': NoTransaction,
                        'failed': TransactionFailedError}.get(self.state)
                try:
                    self.objs[n].v = v
                    got = None
                except (NoTransaction, TransactionFailedError) as e:
                    got = type(e)
                if got is not want:
                    self.bad('join', 'mod-%s:%s-instead-of-%s' % (
                        self.state, getattr(got, '__name__', 'accepted'),
                        getattr(want, '__name__', 'accepted')), dict(op=op))
                    self.dead = True
                    return
                if want is None:
                    self.current[n] = v
            elif k == 'add':
                n = op[1]
                want = {'none': NoTransaction,
                        'failed': TransactionFailedError}.get(self.state)
                try:
                    self.conns[n].add(self.news[n][0])
                    got = None
                except (NoTransaction, TransactionFailedError) as e:
                    got = type(e)
                if got is not want:
                    self.bad('join', 'add-%s:%s-instead-of-%s' % (
                        self.state, getattr(got, '__name__', 'accepted'),
                        getattr(want, '__name__', 'accepted')), dict(op=op))
                    self.dead = True
                    return
                if want is None:
                    self.news[n][1] = True
            elif k == 'commit':
                self.tm.commit()
                self.committed = dict(self.current)
                for nw in self.news.values():
                    nw[2] = nw[1]
                self.state = idle
            elif k == 'commit-fail':
                self.tm.get().join(connworld.FailingRM('vote'))
                try:
                    self.tm.commit()
                    self.bad('join', 'failing-commit-succeeded', {})
                    self.dead = True
                    return
                except RuntimeError:
                    pass
                self.current = dict(self.committed)
                for nw in self.news.values():
                    nw[1] = nw[2]
                self.state = 'failed'
            elif k == 'abort':
                self.tm.abort()
                self.current = dict(self.committed)
                for nw in self.news.values():
                    nw[1] = nw[2]
                self.state = idle
            elif k == 'close':
                # closing the primary: refused while it or its secondary
                # takes part in a transaction - and then nothing has
                # happened; otherwise both go back to the pool
                CSE = env.mod('ZODB.POSException').ConnectionStateError
                # (a connection takes part from its first modification to
                # the end - or the failure - of the commit)
                joined = self.state == 'active' and (
                    self.current != self.committed
                    or any(nw[1] != nw[2] for nw in self.news.values()))
                dirty = False
                try:
                    self.conns['a'].close()
                    got = 'closed'
                except CSE:
                    got = 'refused'
                want = 'refused' if (dirty or joined) else 'closed'
                if got != want:
                    self.bad('close', 'join:multi:%s-instead-of-%s' % (
                        got, want), dict(op=op, state=self.state))
                    self.dead = True
                    return
                if got == 'closed':
                    if self.state in ('active', 'failed'):
                        self.tm.abort()
                        self.current = dict(self.committed)
                        self.state = idle
                    for n2, nw in self.news.items():
                        nw[1] = nw[2]
                        if nw[2]:
                            # committed: belongs to the old connection
                            # object; take a fresh one
                            self.news[n2] = [self._hclasses.P(), False, False]
                    ca = self.dbs['a'].open(self.tm)
                    self.conns = {'a': ca, 'b': ca.get_connection('b')}
                    if self.explicit:
                        self.tm.begin()
                    for n2, c2 in self.conns.items():
                        self.objs[n2] = c2.root()['o']
                        self.objs[n2].v
                    if self.explicit:
                        self.tm.abort()
                        self.state = 'none'
        except Exception as e:      # noqa: B902
            self.bad('error', 'join:%s:%s' % (k, type(e).__name__),
                     dict(op=op, error=repr(e)[:200]))
            self.dead = True
            return
        self.check()

    def check(self):
        from mc.battery import Exc, call
        # the observer sees the committed values
        self.otm.abort()
        for n, c in self.obs.items():
            r = call(lambda: c.root()['o'].v)
            if r != self.committed[n]:
                self.bad('isolated', 'join:observer', dict(
                    db=n, expected=self.committed[n], got=repr(r)))
        # the working connections show the current values while a
        # transaction is active, and are not dirty otherwise
        for n, o in self.objs.items():
            if self.state == 'active':
                r = call(lambda: o.v)
                if r != self.current[n]:
                    self.bad('state', 'join:wrong-value', dict(
                        db=n, expected=self.current[n], got=repr(r)))
            elif o._p_changed:
                self.bad('flags', 'join:dirty-outside-transaction',
                         dict(db=n, state=self.state))
        # a new object belongs to a connection exactly while its add() is
        # in force (a refused add() leaves it alone)
        for n, (o, owned, _) in self.news.items():
            if (o._p_jar is not None) != owned or \
                    (o._p_oid is not None) != owned:
                self.bad('flags', 'join:new-object-%s' % (
                    'lost' if owned else 'still-attached'),
                    dict(db=n, state=self.state, jar=repr(o._p_jar),
                         oid=repr(o._p_oid)))
        # a connection that takes part in no transaction can be closed
        if self.state == 'none':
            for n, c in self.conns.items():
                if c._needs_to_join is False:
                    self.bad('flags', 'join:joined-without-transaction',
                             dict(db=n))


def join_subtree(explicit, prefix, depth, multi=False):
    from mc import schedx
    env.install()
    res = schedx._new_res()
    seen = set()

    def dfs(hist):
        w = JoinWorld(explicit, multi)
        try:
            for op in hist:
                w.apply(op)
                if w.dead:
                    break
            res['cov']['traces_validated_against_impl'] += 1
            res['cov']['transitions'] += len(hist)
            res['cov']['evaluations'] += 1 + len(hist)
            res['cov']['states'] += 1
            if any(o[0] == 'mod' for o in hist):
                res['cov']['distinct_nontrivial'] += 1
            if hist:
                key = 'join:%s:%s' % (hist[-1][0], w.state)
                res['outcomes'][key] = res['outcomes'].get(key, 0) + 1
            if w.violations:
                for c, s, d in w.violations:
                    fs = 'C11.%s:%s' % (c, s)
                    if fs not in seen:
                        seen.add(fs)
                        res['violations'].append((
                            'C11.' + c, fs, dict(join=dict(
                                explicit=explicit, multi=multi,
                                history=[list(o) for o in hist])), d, 1))
                return
            if len(hist) >= depth or w.dead:
                return
            ops = w.enabled()
        finally:
            w.close()
        for op in ops:
            dfs(hist + [op])
    dfs([tuple(o) for o in prefix])
    return res


def run(rep, tier, seed, workers):
    depth = 6 if tier == 'quick' else 7
    rep.rule = (
        'all sequences up to the depth over {modify a / n, link n from the '
        'root, link n from the existing object a, add n explicitly, unlink n, commit, abort, a rival commit to a '
        'followed by our conflicting commit, commit with a second resource '
        'manager failing in tpc_vote, commit with the storage failing in '
        'tpc_finish, close + reopen} on a real connection; after every step '
        'ownership, value and change flags of every tracked object, root '
        'membership, the set and tid of the records stored by the last '
        'commit, and what an observer connection sees are compared with the '
        'model; plus all sequences over {begin, modify a / b, commit, commit '
        'failing in another participant\'s vote, abort} for two databases '
        'whose connections share one transaction manager (independent, and '
        'as primary and secondary connection of one multi-database, there '
        'with close of the primary), explicit and implicit mode, where a modification outside a transaction or '
        'inside a failed one must be refused and change nothing; '
        'non-trivial = sequence of at least two steps')
    states = 0
    for kind in ('M', 'F'):
        cfg = dict(prop='C11', kind=kind)
        fps = seqx.explore(rep, MOD, cfg, depth if kind == 'M' else depth - 1,
                           workers, seed, split=3)
        states += len(fps)
        rep.bounds['%s depth' % kind] = depth if kind == 'M' else depth - 1
    cfg = dict(prop='C11', kind='M', kinds=LINKA)
    fps = seqx.explore(rep, MOD, cfg, depth - 1, workers, seed, split=3)
    states += len(fps)
    rep.bounds['M depth with a link through an existing object'] = depth - 1
    # refused joins
    from mc import par
    jd = 6 if tier == 'quick' else 8
    before = rep.cov.get('states', 0)
    tasks = []
    for explicit in (True, False):
        for multi in (False, True):
            w = JoinWorld(explicit, multi)
            first = w.enabled()
            w.close()
            for op in first:
                tasks.append((MOD, 'join_subtree',
                              (explicit, [list(op)], jd - multi, multi)))
    par.run_tasks(tasks, workers, rep, seed)
    rep.bounds['refused-join family depth'] = jd
    rep.cov['states'] = max(states, 1) + rep.cov.get('states', 0) - before
    rep.assumptions = [
        'the in-memory attributes of an object that belongs to no database '
        '(never added, or un-added by abort / rollback) are not compared']


def replay(w):
    if 'join' in w['witness']:
        j = w['witness']['join']
        r = join_subtree(j['explicit'], j['history'], len(j['history']),
                         j.get('multi', False))
        viol = [(v[0].split('.', 1)[1], v[1].split(':', 1)[1], v[3])
                for v in r['violations']]
    else:
        viol = seqx.replay_history(MOD, w['witness'])
    for v in viol:
        print(v)
    sigs = {'C11.%s:%s' % (c, s) for c, s, d in viol}
    return w['signature'] not in sigs
