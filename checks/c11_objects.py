"""C11: in-memory objects follow the outcome of their transaction.

All operation sequences up to a depth on a real connection (plus an observer
connection and a rival committer): modify existing / new objects, link a new
object from the root (implicit add), explicit add, unlink, commit, abort,
commits that fail at store (conflict), at another participant's vote and in
the storage's tpc_finish, close + reopen.  After every step every tracked
object is compared with a reference model: ownership (_p_jar/_p_oid), value,
change flags; after a commit the stored set and the single tid; the observer
sees exactly the committed state.
"""
from mc import connworld, env, seqx

MOD = 'checks.c11_objects'
KINDS = ['mod', 'link', 'add', 'unlink', 'commit', 'abort', 'rival',
         'commit-vote-fail', 'commit-finish-fail', 'close']


def make_spec(cfg):
    return dict(kinds=cfg.get('kinds') or KINDS,
                objects=cfg.get('objects', ('a', 'n')),
                max_handles=cfg.get('max_handles', 2))


def build(cfg, hist, spec):
    w = connworld.ConnWorld(cfg['kind'])
    for op in hist:
        w.apply(tuple(op))
    w.flavor = 'M'
    w.path = None
    w.next_tick = 0
    w.storage_model = None
    return w


def node(w, hist, cfg, res):
    if w.dead:
        return 0, False, []
    nv = len(w.violations)
    n = w.check()
    if hist:
        res.outcome(w.outcomes[-1])
    viol = w.violations[nv:]
    w.violations = w.violations[:nv]
    res.clause('%s.state' % cfg['prop'], n)
    return n, len(hist) >= 2, viol


def run(rep, tier, seed, workers):
    depth = 6 if tier == 'quick' else 7
    rep.rule = (
        'all sequences up to the depth over {modify a / n, link n from the '
        'root, add n explicitly, unlink n, commit, abort, a rival commit to a '
        'followed by our conflicting commit, commit with a second resource '
        'manager failing in tpc_vote, commit with the storage failing in '
        'tpc_finish, close + reopen} on a real connection; after every step '
        'ownership, value and change flags of every tracked object, root '
        'membership, the set and tid of the records stored by the last '
        'commit, and what an observer connection sees are compared with the '
        'model; non-trivial = sequence of at least two steps')
    states = 0
    for kind in ('M', 'F'):
        cfg = dict(prop='C11', kind=kind)
        fps = seqx.explore(rep, MOD, cfg, depth if kind == 'M' else depth - 1,
                           workers, seed, split=3)
        states += len(fps)
        rep.bounds['%s depth' % kind] = depth if kind == 'M' else depth - 1
    rep.cov['states'] = max(states, 1)
    rep.assumptions = [
        'the in-memory attributes of an object that belongs to no database '
        '(never added, or un-added by abort / rollback) are not compared']


def replay(w):
    viol = seqx.replay_history(MOD, w['witness'])
    for v in viol:
        print(v)
    sigs = {'C11.%s:%s' % (c, s) for c, s, d in viol}
    return w['signature'] not in sigs
