"""C05: a transaction that does not finish leaves no trace and blocks no one.

For every history h up to a depth, every victim transaction (abort at every
phase, one injected I/O failure at every raw op of begin/store/vote with torn
variants, quota exceeded, conflict, over-long metadata, a failing second
resource manager, calls with the wrong transaction) is run on a freshly
rebuilt real storage; afterwards disk and query battery must equal the
snapshot taken before the victim, a follow-up commit must succeed, and the
reopened storage must equal model + follow-up.  Locks are the controlled
single-thread locks, so "the next tpc_begin would block" is a DeadlockError,
not a hang.
"""
import os

from mc import battery, env, iolog, sched, seqx, world
from mc.battery import Exc, call, p64, u64
from mc.refmodel import Z64

MOD = 'checks.c05_abort'
KINDS = ['new', 'new2', 'mod', 'mod2', 'del', 'undo', 'ab2', 'reopen']
V_OID = 7


def make_spec(cfg):
    kinds = KINDS if cfg['kind'] != 'M' else ['new', 'new2', 'mod', 'mod2',
                                             'ab2']
    return world.Spec(cfg.get('kinds') or kinds, oids=(1, 2),
                      classes={}, undo_k=1)


def build(cfg, hist, spec, **kw):
    env.reset_globals()
    sched.install_locks()
    w = world.World(cfg['kind'], record=cfg['kind'] != 'M',
                    bufsize=cfg.get('bufsize', 8192))
    for op in hist:
        w.apply(tuple(op), spec)
    return w


# ------------------------------------------------------------- victims

def victims(cfg, w):
    """Victim descriptors for the state reached (fault points are expanded
    lazily by run_victim returning 'no injection')."""
    vs = []
    for n in (0, 1, 2):
        vs.append(('abort', 'store', n, False))
    for rd in (False, True):
        for n in (0, 1, 2):
            vs.append(('abort', 'vote', n, rd))
    vs.append(('conflict', 0))
    vs.append(('conflict', 1))
    vs.append(('finish-callback',))
    vs.append(('wrongtxn', 'idle'))
    vs.append(('wrongtxn', 'store'))
    vs.append(('wrongtxn', 'vote'))
    if cfg['kind'] != 'M':
        # every undoable transaction: undo it, then abort (the model says
        # whether the undo itself is refused half-way or goes through)
        n = len([d for d in w.model.undoLog() if d['_n']])
        vs += [('undo', i) for i in range(min(n, 3))]
        vs += [('longmeta', 'user'), ('longmeta', 'desc'), ('longmeta', 'ext')]
        vs += [('quota', 1), ('quota', 2)]
        vs += [('rm', when, pos) for when in ('tpc_begin', 'commit',
                                              'tpc_vote')
               for pos in ('before', 'after')]
    elif not w.model.txns:
        # explicit-oid stores of the prefix history would collide with
        # new_oid() of a MappingStorage (that is C20's subject, not C05's)
        vs += [('rm', when, pos) for when in ('tpc_vote',)
               for pos in ('before', 'after')]
    return vs


def dirstate(w):
    if w.kind == 'M':
        return {}
    snap = iolog.snapshot(w.dir)
    out = {}
    for k, v in snap.items():
        if k.endswith('.lock'):
            continue
        if k.endswith('.tmp'):
            out[k] = 'exists'
            continue
        out[k] = v
    return out


def observe(w):
    m = w.model
    return battery.observe(w.storage, m.oids() + [p64(V_OID)], m.tids(),
                           w.flavor, iter_level=0)


def vrec(i):
    from mc import hclasses
    return hclasses.mkrec('P', 5000 + i)


def do_stores(w, t, n):
    """n stores of the victim: a new object, then a live one if any."""
    s = w.storage
    m = w.model
    r = None
    live = [o for o in (1, 2) if m.live(p64(o))]
    for i in range(n):
        if i == 0:
            r = call(s.store, p64(V_OID), Z64, vrec(i), '', t)
        elif live:
            o = p64(live[0])
            r = call(s.store, o, m.current_serial(o), vrec(i), '', t)
        else:
            r = call(s.store, p64(V_OID + 1), Z64, vrec(i), '', t)
        if isinstance(r, Exc):
            return r
    return r


def run_victim(w, v, res):
    """Returns (label, violations).  label None = fault index past the end."""
    s = w.storage
    viol = []
    kind = v[0]
    t = world.TMD(b'victim', b'doomed')
    env.CLOCK.now += 1

    def abort():
        r = call(s.tpc_abort, t)
        if isinstance(r, Exc):
            viol.append(('abort', '%s:tpc_abort:%s' % (kind, r.name),
                         dict(victim=v, got=repr(r))))

    if kind == 'abort':
        _, phase, n, rd = v
        r = call(s.tpc_begin, t)
        if not isinstance(r, Exc):
            r = do_stores(w, t, n)
        if not isinstance(r, Exc) and phase == 'vote':
            r = call(s.tpc_vote, t)
            if rd and not isinstance(r, Exc):
                # a reader between vote and abort: its pooled file handle
                # buffers bytes of the doomed transaction
                for o in w.model.oids()[:2]:
                    call(s.loadBefore, o, battery.MAXTID)
                    call(s.load, o)
        if isinstance(r, Exc):
            viol.append(('step', 'abort-victim:%s' % r.name,
                         dict(victim=v, got=repr(r))))
        abort()
        return 'abort-%s' % phase, viol
    if kind == 'fault':
        _, n, partial = v
        iolog.LOG.arm(n, partial)
        r = call(s.tpc_begin, t)
        if not isinstance(r, Exc):
            r = do_stores(w, t, 2)
        if not isinstance(r, Exc):
            r = call(s.tpc_vote, t)
        inj = iolog.LOG.injected
        iolog.LOG.disarm()
        if inj is None:
            abort()
            return None, viol
        if not isinstance(r, Exc):
            viol.append(('fault', 'swallowed:%s' % inj[0],
                         dict(victim=v, injected=repr(inj)[:200])))
        elif r.name != 'OSError':
            # the error reported must be the injected one (or a storage
            # error wrapping it)
            res.outcome('fault-reported-as-%s' % r.name)
        abort()
        return 'fault-%s-%s' % (inj[0], os.path.basename(inj[1]).replace(
            'Data.fs', 'D')), viol
    if kind == 'finish-callback':
        # the callback handed to tpc_finish (it delivers the invalidations)
        # raises: nothing has been finished yet, so this is one more way
        # for a voted transaction not to finish
        r = call(s.tpc_begin, t)
        if not isinstance(r, Exc):
            r = do_stores(w, t, 2)
        if not isinstance(r, Exc):
            r = call(s.tpc_vote, t)

        def boom(tid):
            raise RuntimeError('scripted failure in the finish callback')
        r = call(s.tpc_finish, t, boom)
        if not (isinstance(r, Exc) and r.name == 'RuntimeError'):
            viol.append(('step', 'finish-callback:%s' % (
                r.name if isinstance(r, Exc) else 'swallowed'),
                dict(victim=v, got=repr(r)[:100])))
        abort()
        return 'finish-callback', viol
    if kind == 'finish-fault':
        # the failure strikes inside tpc_finish: the transaction may end up
        # committed or not, but nothing in between (judged by the caller)
        _, n, partial = v
        r = call(s.tpc_begin, t)
        if not isinstance(r, Exc):
            r = do_stores(w, t, 2)
        if not isinstance(r, Exc):
            r = call(s.tpc_vote, t)
        if isinstance(r, Exc):
            viol.append(('step', 'finish-victim:%s' % r.name,
                         dict(victim=v, got=repr(r))))
            abort()
            return 'finish-fault-na', viol
        if n is None:
            r = call(s.tpc_finish, t)       # the twin: no failure
            return 'finish-twin', viol
        iolog.LOG.arm(n, partial)
        r = call(s.tpc_finish, t)
        inj = iolog.LOG.injected
        iolog.LOG.disarm()
        if inj is None:
            return None, viol
        if not isinstance(r, Exc):
            viol.append(('fault', 'swallowed-in-finish:%s' % inj[0],
                         dict(victim=v, injected=repr(inj)[:200])))
        return 'finish-fault-%s' % inj[0], viol
    if kind == 'quota':
        r = call(s.tpc_begin, t)
        if not isinstance(r, Exc):
            r = do_stores(w, t, 2)
        if not (isinstance(r, Exc) and r.name == 'FileStorageQuotaError'):
            viol.append(('step', 'quota-not-raised', dict(got=repr(r))))
        abort()
        s._quota = None
        return 'quota', viol
    if kind == 'conflict':
        r = call(s.tpc_begin, t)
        if v[1]:
            r = call(s.store, p64(V_OID), Z64, vrec(0), '', t)
        live = [o for o in (1, 2) if w.model.live(p64(o))]
        if not live:
            abort()
            return 'conflict-na', viol
        o = p64(live[0])
        r = call(s.store, o, p64(12345), vrec(1), '', t)
        if not (isinstance(r, Exc) and r.name == 'ConflictError'):
            viol.append(('step', 'conflict-not-raised', dict(got=repr(r))))
        abort()
        return 'conflict', viol
    if kind == 'longmeta':
        big = b'x' * 65536
        kw = dict(user=b'u', desc=b'd', ext=None)
        if v[1] == 'user':
            kw['user'] = big
        elif v[1] == 'desc':
            kw['desc'] = big
        else:
            kw['ext'] = {'k': big}
        t = world.TMD(**kw)
        r = call(s.tpc_begin, t)
        if not isinstance(r, Exc):
            r = do_stores(w, t, 1)
        if not isinstance(r, Exc):
            r = call(s.tpc_vote, t)
        if not (isinstance(r, Exc) and 'FileStorageError' in r.name):
            viol.append(('step', 'longmeta-not-refused:%s' % v[1],
                         dict(got=repr(r))))
        abort()
        return 'longmeta', viol
    if kind == 'wrongtxn':
        other = world.TMD(b'other')
        when = v[1]
        if when != 'idle':
            r = call(s.tpc_begin, t)
            r = do_stores(w, t, 1)
            if when == 'vote':
                r = call(s.tpc_vote, t)
        calls = [('store', lambda: s.store(p64(V_OID + 2), Z64, vrec(3), '',
                                           other)),
                 ('tpc_vote', lambda: s.tpc_vote(other)),
                 ('tpc_finish', lambda: s.tpc_finish(other)),
                 ('checkCurrent', lambda: s.checkCurrentSerialInTransaction(
                     p64(1), Z64, other))]
        if w.flavor == 'F':
            calls += [('deleteObject', lambda: s.deleteObject(
                p64(1), Z64, other)),
                ('undo', lambda: s.undo(b'AAAAAAAAAAA=', other)),
                ('restore', lambda: s.restore(p64(1), p64(5), b'x', '', None,
                                              other))]
        for name, f in calls:
            r = call(f)
            res.clause('C05.wrongtxn')
            if not (isinstance(r, Exc)
                    and r.name == 'StorageTransactionError'):
                viol.append(('wrongtxn', '%s:%s:%s' % (
                    when, name, r.name if isinstance(r, Exc) else 'accepted'),
                    dict(call=name, when=when, got=repr(r))))
        r = call(s.tpc_abort, other)
        if isinstance(r, Exc):
            viol.append(('wrongtxn', '%s:tpc_abort:%s' % (when, r.name),
                         dict(got=repr(r))))
        if when != 'idle':
            # the real transaction must still be in progress and abortable
            if s.tpc_transaction() is not t:
                viol.append(('wrongtxn', '%s:lost-transaction' % when, {}))
            abort()
        return 'wrongtxn', viol
    if kind == 'undo':
        from base64 import encodebytes
        ul = [d for d in w.model.undoLog() if d['_n']]
        utid = w._tid_of(ul[v[1]])
        plan = w.plan([('undo', utid)])
        r = call(s.tpc_begin, t)
        r = call(s.undo, encodebytes(utid).rstrip(), t)
        refused = plan[0] != 'ok'
        if refused != (isinstance(r, Exc) and r.name == 'UndoError'):
            viol.append(('step', 'undo:%s' % (
                'not-refused' if refused else 'refused'),
                dict(victim=v, got=repr(r))))
        abort()
        return 'undo-refused' if refused else 'undo-aborted', viol
    if kind == 'rm':
        return run_rm_victim(w, v, viol)
    raise ValueError(v)


class FailingRM:
    def __init__(self, when, key):
        self.when = when
        self.key = key

    def sortKey(self):
        return self.key

    def _maybe(self, name):
        if self.when == name:
            raise RuntimeError('scripted failure in %s' % name)

    def abort(self, txn):
        pass

    def tpc_begin(self, txn):
        self._maybe('tpc_begin')

    def commit(self, txn):
        self._maybe('commit')

    def tpc_vote(self, txn):
        self._maybe('tpc_vote')

    def tpc_finish(self, txn):
        pass

    def tpc_abort(self, txn):
        pass


def run_rm_victim(w, v, viol):
    """Through DB + transaction: a second resource manager fails."""
    import transaction
    from mc import hclasses
    _, when, pos = v
    DB = env.mod('ZODB.DB').DB
    s = w.storage
    db = DB(s)          # DB() commits a root object if there is none
    if True:
        tm = transaction.TransactionManager()
        c = db.open(tm)
        root = c.root()
        if 'k' not in root:
            root['k'] = hclasses.P()
            tm.commit()
        # adopt what DB/setup committed into the model (not part of victim)
        w.model_resync = True
        w.pre_dir = dirstate(w)
        w.pre_obs = None
        root['k'].v = 1
        root['n'] = hclasses.P()
        key = '\x00' if pos == 'before' else '\xff'
        tm.get().join(FailingRM(when, key))
        try:
            tm.commit()
            viol.append(('step', 'rm-commit-succeeded', dict(victim=v)))
        except RuntimeError:
            pass
        tm.abort()
        w.post_dir = dirstate(w)
        if w.pre_dir != w.post_dir:
            viol.append(('disk', 'rm:%s:%s' % (when, pos),
                         dict(diff=dictdiff(w.pre_dir, w.post_dir))))
        # next transaction commits normally
        root['k'].v = 2
        r = call(tm.commit)
        if isinstance(r, Exc):
            viol.append(('next', 'rm:%s:%s:%s' % (when, pos, r.name),
                         dict(got=repr(r))))
        c.close()
    return 'rm', viol


def dictdiff(a, b):
    out = []
    for k in sorted(set(a) | set(b)):
        if a.get(k) != b.get(k):
            va, vb = a.get(k), b.get(k)
            out.append((k, None if va is None else len(va),
                        None if vb is None else len(vb)))
    return out[:5]


def judge_finish_fault(cfg, hist, spec, v, res):
    """A failure inside tpc_finish.  After reopening, the storage answers
    either as before the victim or as a twin in which the same victim
    finished without a failure; the data file is byte for byte one of the
    two; the storage (which closes itself) holds no lock: it can be reopened
    and the next transaction commits."""
    w = build(cfg, hist, spec)
    try:
        pre_obs = observe(w)
        with open(w.path, 'rb') as f:
            pre_bytes = f.read()
        clock = env.CLOCK.now
        label, viol = run_victim(w, v, res)
        if label is None or label == 'finish-fault-na':
            return label, viol
        try:
            w.storage.close()
        except Exception:
            pass
        r = call(w.open)
        res.clause('C05.finish')
        if isinstance(r, Exc):
            viol.append(('finish', '%s:reopen:%s' % (label, r.name),
                         dict(victim=v, got=repr(r))))
            return label, viol
        post_obs = call(observe, w)
        with open(w.path, 'rb') as f:
            post_bytes = f.read()
    finally:
        iolog.LOG.disarm()
        w2 = w
    try:
        # the twin
        t = build(cfg, hist, spec)
        try:
            env.CLOCK.now = clock
            run_victim(t, ('finish-fault', None, 0), res)
            t.storage.close()
            t.open()
            twin_obs = observe(t)
            with open(t.path, 'rb') as f:
                twin_bytes = f.read()
        finally:
            t.close()
        if isinstance(post_obs, Exc):
            viol.append(('finish', '%s:%s' % (label, post_obs.name),
                         dict(victim=v, got=repr(post_obs))))
        elif post_obs == pre_obs and post_bytes == pre_bytes:
            res.outcome(label + ':absent')
        elif post_obs == twin_obs and post_bytes == twin_bytes:
            res.outcome(label + ':committed')
        else:
            which = 'answers' if post_obs not in (pre_obs, twin_obs) \
                else 'file'
            viol.append(('finish', '%s:neither-old-nor-new:%s' % (
                label, which), dict(victim=v, size=len(post_bytes),
                                    old=len(pre_bytes), new=len(twin_bytes))))
            return label, viol
        # the next transaction commits
        s = w2.storage
        t2 = world.TMD(b'after', b'next')
        env.CLOCK.now += 1
        res.clause('C05.next')
        try:
            r = call(s.tpc_begin, t2)
            if not isinstance(r, Exc):
                r = call(s.store, p64(V_OID + 5), Z64, vrec(9), '', t2)
            if not isinstance(r, Exc):
                r = call(s.tpc_vote, t2)
            if not isinstance(r, Exc):
                r = call(s.tpc_finish, t2)
        except sched.DeadlockError as e:
            viol.append(('deadlock', label, dict(victim=v, error=str(e))))
            return label, viol
        if isinstance(r, Exc):
            viol.append(('next', '%s:%s' % (label, r.name),
                         dict(victim=v, got=repr(r))))
        return label, viol
    finally:
        w2.close()


def judge(cfg, hist, spec, v, res):
    """Build h, snapshot, run victim, compare, follow up.  Returns
    (label, violations)."""
    if v[0] == 'finish-fault':
        return judge_finish_fault(cfg, hist, spec, v, res)
    w = build(cfg, hist, spec)
    try:
        if v[0] == 'rm':
            label, viol = run_victim(w, v, res)
            return label, viol
        if v[0] == 'quota':
            # reopen with a quota that the k-th store exceeds
            pos = w.storage.getSize()
            w.storage.close()
            w.open(quota=pos if v[1] == 1 else pos + 24)
        pre_obs = observe(w)
        if v[0] == 'abort' and v[3] and w.kind != 'M':
            # the reader inside the victim must get a fresh pooled handle
            # (no read-ahead buffer from before the vote): close + reopen
            w.storage.close()
            w.open()
        pre_dir = dirstate(w)
        label, viol = run_victim(w, v, res)
        if label is None:
            return None, viol
        post_dir = dirstate(w)
        res.clause('C05.disk')
        if pre_dir != post_dir:
            viol.append(('disk', label, dict(
                victim=v, diff=dictdiff(pre_dir, post_dir))))
        r = call(observe, w)
        res.clause('C05.mem')
        if isinstance(r, Exc):
            viol.append(('mem', '%s:%s' % (label, r.name),
                         dict(victim=v, got=repr(r))))
        elif r != pre_obs:
            q = [k for k in pre_obs if pre_obs[k] != r.get(k)][0]
            viol.append(('mem', '%s:%s' % (label, q[0]),
                         dict(victim=v, query=q, before=repr(pre_obs[q])[:200],
                              after=repr(r.get(q))[:200])))
        # follow-up commit, then reopen
        nv = len(w.violations)
        try:
            out = w.apply(('new', 3), world.Spec(['new'], oids=(3,)))
        except sched.DeadlockError as e:
            viol.append(('deadlock', label, dict(victim=v, error=str(e))))
            return label, viol
        res.clause('C05.next')
        if out != 'commit' or len(w.violations) > nv:
            viol.append(('next', '%s:%s' % (label, out),
                         dict(victim=v, step=w.violations[nv:][:1])))
            return label, viol
        for phase in ('live', 'reopened'):
            m = w.model
            exp = battery.expect(m, iter_level=0)
            obs = battery.observe(w.storage, m.oids() + [p64(V_OID)],
                                  m.tids(), w.flavor, iter_level=0)
            bad = battery.compare(exp, obs, m)
            if bad:
                q, e, g = bad[0]
                viol.append(('next', '%s:%s:%s' % (
                    label, phase, battery.sig_of('', q, e, g).lstrip(':')),
                    dict(victim=v, query=q, expected=repr(e)[:300],
                         got=repr(g)[:300])))
                break
            if w.kind == 'M':
                break
            if phase == 'live':
                from mc import fsparse
                with open(w.path, 'rb') as f:
                    diff = fsparse.check_against_model(f.read(), m)
                if diff:
                    viol.append(('next', '%s:file:%s' % (
                        label, diff.split(':')[0]),
                        dict(victim=v, diff=diff)))
                    break
            w.storage.close()
            w.open()
        return label, viol
    finally:
        iolog.LOG.disarm()
        w.close()


def node(w, hist, cfg, res):
    spec = make_spec(cfg)
    viol = []
    n = 0
    vs = victims(cfg, w)
    # fault points: every raw op of begin/store/vote
    if cfg['kind'] != 'M':
        partials = cfg.get('partials', (0, 1))
        i = 0
        while True:
            label = None
            for p in partials:
                lab, vv = judge(cfg, hist, spec, ('fault', i, p), res)
                if lab is None:
                    break
                label = lab
                n += 1
                res.outcome(lab)
                viol += vv
            if label is None:
                break
            i += 1
            if i > 200:
                break
        # ... and every raw op of tpc_finish
        i = 0
        while i < 20:
            label = None
            for p in partials:
                lab, vv = judge(cfg, hist, spec, ('finish-fault', i, p), res)
                if lab is None:
                    break
                label = lab
                n += 1
                viol += vv
            if label is None:
                break
            i += 1
    for v in vs:
        lab, vv = judge(cfg, hist, spec, v, res)
        n += 1
        res.outcome(lab)
        viol += vv
    res.cov['traces_validated_against_impl'] += n
    res.cov['transitions'] += n * (len(hist) + 2)
    # deduplicate by signature
    seen, out = set(), []
    for c, s, d in viol:
        if (c, s) not in seen:
            seen.add((c, s))
            out.append((c, s, d))
    return n, True, out


# ------------------------------------------------- wrapper storages

WRAPPERS = ('DMF', 'DFM', 'DMM', 'BF', 'BM', 'Bn', 'VF', 'VM')


def mk_wrapper(kind, d):
    FS = env.mod('ZODB.FileStorage.FileStorage').FileStorage
    MS = env.mod('ZODB.MappingStorage').MappingStorage
    DS = env.mod('ZODB.DemoStorage').DemoStorage
    BS = env.mod('ZODB.blob').BlobStorage
    if kind == 'DMF':
        return DS(base=MS('b'), changes=FS(os.path.join(d, 'C.fs')))
    if kind == 'DFM':
        return DS(base=FS(os.path.join(d, 'B.fs')), changes=MS('c'))
    if kind == 'DMM':
        return DS(base=MS('b'), changes=MS('c'))
    if kind == 'BF':
        return BS(os.path.join(d, 'blobs'), FS(os.path.join(d, 'D.fs')))
    if kind == 'BM':
        return BS(os.path.join(d, 'blobs'), MS('m'))
    if kind == 'Bn':
        # a FileStorage with its own (native) blob support
        return FS(os.path.join(d, 'N.fs'), blob_dir=os.path.join(d, 'blobs'))
    if kind in ('VF', 'VM'):
        # what a connection talks to: an instance of the MVCC adapter
        MVCC = env.mod('ZODB.mvccadapter').MVCCAdapter
        inner = FS(os.path.join(d, 'V.fs')) if kind == 'VF' else MS('v')
        inst = MVCC(inner).new_instance()
        inst.poll_invalidations()
        return inst
    raise ValueError(kind)


def wrapper_victims(kind):
    blob = kind[0] == 'B'
    vs = []
    for phase in ('begin', 'store', 'vote'):
        vs.append(('abort', phase, False))
        if blob and phase != 'begin':
            vs.append(('abort', phase, True))
    for f in ('user', 'desc', 'ext'):
        vs.append(('longmeta', f))
    vs.append(('conflict',))
    vs.append(('finish-callback', False))
    if blob:
        vs.append(('finish-callback', True))
    for when in ('idle', 'store', 'vote'):
        vs.append(('stray', when, False))
        if blob and when != 'idle':
            vs.append(('stray', when, True))
    return vs


def wrapper_scenario(kind, v):
    """One victim on a wrapper storage (demo storage layerings, the blob
    wrapper): afterwards the storage answers as before, its files are as
    before, and the next transaction commits.  A stray call with another
    transaction must not disturb the transaction in progress, which is then
    finished and must be complete."""
    from mc import hclasses
    env.reset_globals()
    sched.install_locks()
    d = env.new_dir('wr')
    viol = []
    if v[0] == 'blobfault':
        iolog.install()
        iolog.LOG.reset(d, 8192)
        iolog.LOG.recording = True
    s = mk_wrapper(kind, d)
    blob = kind[0] == 'B'
    label = ':'.join(str(x) for x in v)

    def bad(c, sg, det):
        viol.append((c, 'wrapper:%s:%s' % (kind, sg), dict(det, victim=v)))

    def blobfile(n):
        p = os.path.join(d, 'in%d.tmp' % n)
        with open(p, 'wb') as f:
            f.write(b'blob-bytes-%d' % n)
        return p

    def commit(items, txn=None, finish=True):
        """items: [(oid, serial, n, is_blob)]"""
        t = txn or world.TMD(b'u', b'd')
        env.CLOCK.now += 1
        s.tpc_begin(t)
        for oid, serial, n, isb in items:
            if isb:
                s.storeBlob(oid, serial, hclasses.mkrec('P', n), blobfile(n),
                            '', t)
            else:
                s.store(oid, serial, hclasses.mkrec('P', n), '', t)
        s.tpc_vote(t)
        if finish:
            return s.tpc_finish(t)
        return t

    def observe():
        out = {}
        if kind[0] == 'V':
            s.poll_invalidations()      # a transaction boundary
        for o in (1, 2, 3, 7, 8):
            r = call(s.load, p64(o))
            out[('load', o)] = r
            if blob and not isinstance(r, Exc):
                lb = call(s.loadBlob, p64(o), r[1])
                if not isinstance(lb, Exc):
                    with open(lb, 'rb') as f:
                        lb = f.read()
                out[('blob', o)] = lb
        out['last'] = call(s.lastTransaction)
        files = {}
        for k2, v2 in iolog.snapshot(d).items():
            if k2.endswith(('.lock', '.tmp', '.index')) or '/tmp/' in k2:
                continue
            if v2 is None:
                continue    # a directory (an empty one may stay behind)
            files[k2] = v2
        out['files'] = files
        return out
    try:
        tid1 = commit([(p64(1), Z64, 1, False), (p64(2), Z64, 2, blob)])
        pre = observe()
        t = world.TMD(b'victim', b'doomed')
        other = world.TMD(b'other')
        env.CLOCK.now += 1
        kindv = v[0]
        try:
            if kindv == 'abort':
                _, phase, withblob = v
                s.tpc_begin(t)
                if phase in ('store', 'vote'):
                    s.store(p64(7), Z64, hclasses.mkrec('P', 7), '', t)
                    if withblob:
                        s.storeBlob(p64(8), Z64, hclasses.mkrec('P', 8),
                                    blobfile(8), '', t)
                        s.storeBlob(p64(2), tid1, hclasses.mkrec('P', 22),
                                    blobfile(22), '', t)
                if phase == 'vote':
                    s.tpc_vote(t)
                s.tpc_abort(t)
            elif kindv == 'blobfault':
                # one injected failure at the n-th mutating file-system
                # operation of begin + store + 2 blob stores + vote; with
                # xdev the files handed in live on another file system
                # (rename into the blob directory answers EXDEV, the
                # storage copies instead)
                _, n, xdev = v
                real_rename = iolog.OsProxy.rename
                if xdev:
                    import errno

                    def rename(self, a, b):
                        if b.endswith('.blob') and not a.endswith('.blob'):
                            raise OSError(errno.EXDEV, 'scripted: cross-'
                                          'device link')
                        return real_rename(self, a, b)
                    iolog.OsProxy.rename = rename
                try:
                    iolog.LOG.arm(n, 0)

                    def victim():
                        s.tpc_begin(t)
                        s.store(p64(7), Z64, hclasses.mkrec('P', 7), '', t)
                        s.storeBlob(p64(8), Z64, hclasses.mkrec('P', 8),
                                    blobfile(8), '', t)
                        s.storeBlob(p64(2), tid1, hclasses.mkrec('P', 22),
                                    blobfile(22), '', t)
                        s.tpc_vote(t)
                    r = call(victim)
                    inj = iolog.LOG.injected
                finally:
                    iolog.LOG.disarm()
                    iolog.OsProxy.rename = real_rename
                if inj is None:
                    label = None        # past the last operation
                elif not isinstance(r, Exc) and inj[0] != 'rename':
                    # (a rename that fails is made up for by a copy)
                    bad('fault', 'blob:swallowed:%s' % inj[0],
                        dict(injected=repr(inj)[:200]))
                s.tpc_abort(t)
            elif kindv == 'longmeta':
                big = b'x' * 65536
                kw = dict(user=b'u', desc=b'd', ext=None)
                if v[1] == 'ext':
                    kw['ext'] = {'k': big}
                else:
                    kw[v[1]] = big
                t = world.TMD(**kw)
                r = call(s.tpc_begin, t)
                if not isinstance(r, Exc):
                    r = call(s.store, p64(7), Z64, hclasses.mkrec('P', 7),
                             '', t)
                if not isinstance(r, Exc):
                    r = call(s.tpc_vote, t)
                # a storage without a limit may accept it: then finish is
                # not what this victim is about - abort in every case
                s.tpc_abort(t)
            elif kindv == 'conflict':
                s.tpc_begin(t)
                s.store(p64(7), Z64, hclasses.mkrec('P', 7), '', t)
                r = call(s.store, p64(1), p64(12345), hclasses.mkrec('P', 9),
                         '', t)
                if not (isinstance(r, Exc) and r.name == 'ConflictError'):
                    bad('step', 'conflict-not-raised', dict(got=repr(r)))
                s.tpc_abort(t)
            elif kindv == 'finish-callback':
                s.tpc_begin(t)
                s.store(p64(7), Z64, hclasses.mkrec('P', 7), '', t)
                if v[1]:
                    s.storeBlob(p64(8), Z64, hclasses.mkrec('P', 8),
                                blobfile(8), '', t)
                s.tpc_vote(t)

                def boom(tid):
                    raise RuntimeError('scripted failure in the callback')
                r = call(s.tpc_finish, t, boom)
                if not (isinstance(r, Exc) and r.name == 'RuntimeError'):
                    bad('step', 'finish-callback:%s' % (
                        r.name if isinstance(r, Exc) else 'swallowed'),
                        dict(got=repr(r)[:100]))
                s.tpc_abort(t)
            elif kindv == 'stray':
                _, when, withblob = v
                items = [(p64(7), Z64, 7, False)]
                if withblob:
                    items += [(p64(8), Z64, 8, True), (p64(2), tid1, 22,
                                                       True)]
                if when != 'idle':
                    env.CLOCK.now += 1
                    s.tpc_begin(t)
                    for oid, serial, n, isb in items:
                        if isb:
                            s.storeBlob(oid, serial, hclasses.mkrec('P', n),
                                        blobfile(n), '', t)
                        else:
                            s.store(oid, serial, hclasses.mkrec('P', n), '',
                                    t)
                    if when == 'vote':
                        s.tpc_vote(t)
                for nm, f in (
                        ('store', lambda: s.store(p64(9), Z64,
                                                  hclasses.mkrec('P', 9),
                                                  '', other)),
                        ('tpc_vote', lambda: s.tpc_vote(other)),
                        ('tpc_finish', lambda: s.tpc_finish(other))) + ((
                            ('storeBlob', lambda: s.storeBlob(
                                p64(2), tid1, hclasses.mkrec('P', 99),
                                blobfile(99), '', other)),) if blob else ()):
                    r = call(f)
                    if not (isinstance(r, Exc) and r.name ==
                            'StorageTransactionError'):
                        bad('wrongtxn', 'stray-%s:%s' % (
                            nm, r.name if isinstance(r, Exc)
                            else 'accepted'), dict(got=repr(r)[:100]))
                r = call(s.tpc_abort, other)
                if isinstance(r, Exc):
                    bad('wrongtxn', 'stray-abort:%s' % r.name,
                        dict(got=repr(r)))
                if when != 'idle':
                    # the real transaction goes on and must be complete
                    if when != 'vote':
                        s.store(p64(3), Z64, hclasses.mkrec('P', 33), '', t)
                        items.append((p64(3), Z64, 33, False))
                        s.tpc_vote(t)
                    s.tpc_finish(t)
                    post = observe()
                    for oid, serial, n, isb in items:
                        o = u64(oid)
                        r = post[('load', o)]
                        if isinstance(r, Exc) or r[0] != hclasses.mkrec(
                                'P', n):
                            bad('wrongtxn', 'stray-abort-damaged-record',
                                dict(oid=o, got=repr(r)[:100]))
                        if isb and post.get(('blob', o)) != \
                                b'blob-bytes-%d' % n:
                            bad('wrongtxn', 'stray-abort-lost-blob-file',
                                dict(oid=o, got=repr(post.get(
                                    ('blob', o)))[:100]))
                    pre = post
        except sched.DeadlockError as e:
            bad('deadlock', 'victim', dict(error=str(e)))
            return label, viol
        except Exception as e:      # noqa: B902
            bad('step', 'victim:%s' % type(e).__name__,
                dict(error=repr(e)[:200]))
            try:
                s.tpc_abort(t)
            except Exception:
                pass
        post = call(observe)
        if isinstance(post, Exc):
            bad('mem', 'observe:%s' % post.name, dict(got=repr(post)))
        elif post != pre:
            q = [k2 for k2 in pre if pre[k2] != post.get(k2)]
            bad('disk' if q == ['files'] else 'mem', 'changed:%s' % (
                q[0] if isinstance(q[0], str) else q[0][0]),
                dict(query=repr(q[0]), before=repr(pre[q[0]])[:200],
                     after=repr(post.get(q[0]))[:200]))
        # the next transaction commits
        try:
            r3 = call(s.load, p64(3))
            r = call(commit, [(p64(3), Z64 if isinstance(r3, Exc)
                               else r3[1], 3, False)])
        except sched.DeadlockError as e:
            bad('deadlock', 'next', dict(error=str(e)))
            return label, viol
        if isinstance(r, Exc):
            bad('next', 'commit:%s' % r.name, dict(got=repr(r)))
        else:
            if kind[0] == 'V':
                s.poll_invalidations()
            r2 = call(s.load, p64(3))
            if isinstance(r2, Exc) or r2[0] != hclasses.mkrec('P', 3):
                bad('next', 'load', dict(got=repr(r2)[:100]))
        return label, viol
    finally:
        try:
            s.close()
        except Exception:
            pass
        if v[0] == 'blobfault':
            iolog.LOG.recording = False
        env.rm_dir(d)


def _victims_with_faults(kind):
    for v in wrapper_victims(kind):
        yield v
    if kind[0] == 'B':
        for xdev in (False, True):
            n = 0
            while True:
                more = yield ('blobfault', n, xdev)
                if more is False or n > 400:
                    break
                n += 1


def wrapper_task(kind):
    from mc import schedx
    env.install()
    res = schedx._new_res()
    seen = set()
    gen = _victims_with_faults(kind)
    v = next(gen, None)
    while v is not None:
        label, viol = wrapper_scenario(kind, v)
        try:
            v_next = gen.send(label is not None)
        except StopIteration:
            v_next = None
        v, v_prev = v_next, v
        if label is None:
            continue        # fault index past the end: not a scenario
        v0 = v_prev
        _count_wrapper(res, seen, kind, v0, viol)
    return res


def _count_wrapper(res, seen, kind, v, viol):
    res['cov']['traces_validated_against_impl'] += 1
    res['cov']['states'] += 1
    res['cov']['transitions'] += 4
    res['cov']['evaluations'] += 1
    res['outcomes']['wrapper:' + v[0]] = \
        res['outcomes'].get('wrapper:' + v[0], 0) + 1
    for c, sg, dd in viol:
        fs = 'C05.%s:%s' % (c, sg)
        if fs not in seen:
            seen.add(fs)
            res['violations'].append((
                'C05.' + c, fs, dict(wrapper=dict(
                    kind=kind, victim=list(v))), dd, 1))


def run(rep, tier, seed, workers):
    if tier == 'quick':
        plan = [dict(prop='C05', kind='F', bufsize=8192, depth=3),
                dict(prop='C05', kind='F', bufsize=32, depth=1,
                     partials=(0,)),
                dict(prop='C05', kind='M', depth=3)]
    else:
        plan = [dict(prop='C05', kind='F', bufsize=8192, depth=4,
                     partials=(0, 1, 7, 30)),
                dict(prop='C05', kind='F', bufsize=32, depth=3,
                     partials=(0, 1, 7, 30)),
                dict(prop='C05', kind='M', depth=4)]
    rep.rule = (
        'for every prefix history h up to the depth and every victim (abort '
        'after 0-2 stores / after vote with and without a read in between; '
        'one injected ENOSPC at the n-th raw write/truncate/create/fsync of '
        'begin+2 stores+vote for every n, with torn variants; the same at '
        'every raw op of tpc_finish, where the reopened storage must be '
        'byte for byte the old one or the one a twin run without the '
        'failure produces; the callback given to tpc_finish raising; quota '
        'at 1st / '
        '2nd store; conflict; 65536-byte user / description / extension; a '
        'second resource manager failing in tpc_begin / commit / tpc_vote '
        'sorted before / after the connection; wrong-transaction calls while '
        'idle / after store / after vote; the abort / over-long metadata / '
        'conflict / stray tpc_abort victims also on three demo storage '
        'layerings, the blob wrapper over a file and a mapping storage (with '
        'blob stores) and an MVCC adapter instance over both: rebuild h on the real storage, run '
        'the victim, compare files and battery with the snapshot taken '
        'before it, commit a follow-up, reopen; evaluations = (h, victim) '
        'pairs; every pair is non-trivial')
    states = 0
    for cfg in plan:
        depth = cfg.pop('depth')
        fps = seqx.explore(rep, MOD, cfg, depth, workers, seed, split=1)
        states += len(fps)
        rep.bounds['%s buf%s prefix depth' % (
            cfg['kind'], cfg.get('bufsize', '-'))] = depth
    from mc import par
    before = rep.cov.get('states', 0)
    par.run_tasks([(MOD, 'wrapper_task', (k,)) for k in WRAPPERS], workers,
                  rep, seed)
    rep.bounds['wrapper storages'] = list(WRAPPERS)
    rep.cov['states'] = states + rep.cov.get('states', 0) - before
    rep.cov['distinct_nontrivial'] = rep.cov['evaluations']
    rep.assumptions = [
        'the ops of the abort that follows an injected failure are not '
        'themselves failed under this oracle',
        'after a failure inside tpc_finish the transaction may be committed '
        'or not (the storage closes itself); only atomicity, reopening and '
        'the next commit are judged']


def replay(w):
    if 'wrapper' in w['witness']:
        wr = w['witness']['wrapper']
        label, viol = wrapper_scenario(wr['kind'], tuple(wr['victim']))
    else:
        viol = seqx.replay_history(MOD, w['witness'])
    for v in viol:
        print(v)
    sigs = {'C05.%s:%s' % (c, s) for c, s, d in viol}
    return w['signature'] not in sigs
