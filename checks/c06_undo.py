"""C06: undo restores the pre-transaction state or changes nothing.

Storage level: all histories over an undo-centred alphabet (create, modify,
two-object transactions, a write equal in effect, undo of the k-th newest
undoable transaction, two undos in one transaction, reopen, pack) on a real
FileStorage with one object of a class without resolver and one of a class
with a scripted, recording three-way merge.  After every step the full query
battery is compared with the reference model, whose undo rule is written from
the property text; a refused undo must leave the file byte-identical; the
resolver must have been shown exactly (undone, current, previous).
DB level: DB.undo with a second connection holding cached copies.
"""
import os

from mc import battery, env, fsparse, par, schedx, seqx, world
from mc.battery import Exc, call, p64

MOD = 'checks.c06_undo'
KINDS = ['new', 'new2', 'mod', 'mod2', 'same', 'stalegone', 'undo', 'undo2',
         'undotry', 'reopen',
         'pack']


def make_spec(cfg):
    return world.Spec(cfg.get('kinds') or KINDS, oids=(1, 2),
                      classes={1: 'R'}, undo_k=3)


def build(cfg, hist, spec):
    env.reset_globals()
    w = world.World(cfg['kind'])
    w.before_last = None
    for i, op in enumerate(hist):
        if i == len(hist) - 1:
            with open(w.path, 'rb') as f:
                w.before_last = f.read()
        w.apply(tuple(op), spec)
    return w


def node(w, hist, cfg, res):
    m = w.model
    viol = []
    n = 0
    last = w.outcomes[-1] if w.outcomes else None
    if hist:
        res.outcome(last)
    if not w.packed:
        exp = battery.expect(m, iter_level=0)
        obs = battery.observe(w.storage, m.oids(), m.tids(), 'F',
                              iter_level=0)
        bad = battery.compare(exp, obs, m)
        n += len(exp)
        res.clause('C06.result', 1 if last in ('undo-ok', 'resolved') else 0)
        for q, e, g in bad[:2]:
            viol.append(('result', battery.sig_of(last or '-', q, e, g),
                         dict(query=q, expected=repr(e)[:300],
                              got=repr(g)[:300])))
        with open(w.path, 'rb') as f:
            data = f.read()
        diff = fsparse.check_against_model(data, m)
        if diff:
            viol.append(('result', 'file:%s' % diff.split(':')[0],
                         dict(diff=diff)))
    if last == 'undo-refused':
        res.clause('C06.refuse')
        with open(w.path, 'rb') as f:
            data = f.read()
        n += 1
        if data != w.before_last:
            viol.append(('refuse', 'file-changed',
                         dict(before=len(w.before_last), after=len(data))))
    return n, any(o in ('undo-ok', 'undo-refused', 'resolved')
                  for o in w.outcomes), viol


# ------------------------------------------------------- DB-level visible

def db_scenarios(kind):
    """DB.undo seen from a second connection with cached copies."""
    import transaction
    from mc import dbworld, sched
    env.install()
    sched.install_locks()
    res = schedx._new_res()
    seen = set()

    def bad(c, s, wit, d):
        fs = 'C06.%s:%s' % (c, s)
        if fs not in seen:
            seen.add(fs)
            res['violations'].append(('C06.' + c, fs, dict(db=wit), d, 1))

    # histories: list of writes per transaction; then undo choice; observer
    # reads x,y before the undo (cached or not), after the undo without a
    # boundary (must still see old), after a boundary (must see restored)
    hists = [
        [('x',)], [('x',), ('x',)], [('x', 'y'), ('y',)], [('x',), ('y',)],
        [('x', 'y')], [('x',), ('x', 'y'), ('y',)],
    ]
    for hi, h in enumerate(hists):
        for cache in (True, False):
            for boundary in ('abort', 'begin', 'sync', 'reopen'):
                for ui in range(len(h)):
                    wit = dict(kind=kind, history=h, undo_index=ui,
                               cached=cache, boundary=boundary)
                    w = dbworld.DBWorld(kind, record=False)
                    try:
                        res['cov']['traces_validated_against_impl'] += 1
                        res['cov']['states'] += 1
                        tm1 = transaction.TransactionManager()
                        c1 = w.db.open(tm1)
                        vals = [{n: 0 for n in w.names}]
                        tids = []
                        for names in h:
                            env.CLOCK.now += 1
                            cur = dict(vals[-1])
                            for n in names:
                                c1.root()[n].v = cur[n] = w.newval()
                            tm1.get().note('t%d' % len(tids))
                            tm1.commit()
                            tids.append(c1.root()[names[0]]._p_serial)
                            vals.append(cur)
                        tm2 = transaction.TransactionManager()
                        c2 = w.db.open(tm2)
                        if cache:
                            got = {n: c2.root()[n].v for n in w.names}
                            if got != vals[-1]:
                                bad('visible', 'observer-before', wit,
                                    dict(got=got, want=vals[-1]))
                        # expected result of undoing transaction ui
                        want = dict(vals[-1])
                        refused = False
                        for n in h[ui]:
                            later = any(n in names for names in h[ui + 1:])
                            if later:
                                refused = True     # class P: no merge
                            want[n] = vals[ui][n]
                        info = w.db.undoInfo(0, 99)
                        ids = [d['id'] for d in info
                               if d['description'] == 't%d' % ui]
                        env.CLOCK.now += 1
                        UE = env.mod('ZODB.POSException').UndoError
                        try:
                            w.db.undo(ids[0], tm1.get())
                            tm1.commit()
                            outcome = 'ok'
                        except UE:
                            tm1.abort()
                            outcome = 'refused'
                        res['outcomes'][outcome] = \
                            res['outcomes'].get(outcome, 0) + 1
                        res['cov']['evaluations'] += 1
                        if refused != (outcome == 'refused'):
                            bad('visible', 'db-undo-%s' % outcome, wit,
                                dict(expected_refused=refused))
                            continue
                        final = dict(vals[-1] if refused else want)
                        snapshot = dict(vals[-1])
                        if refused:
                            # nothing of the refused undo stays behind: the
                            # next ordinary transaction commits
                            env.CLOCK.now += 1
                            try:
                                c1.root()['x'].v = final['x'] = w.newval()
                                tm1.commit()
                            except sched.DeadlockError as e:
                                tm1.abort()
                                bad('fail', 'refused-undo-blocks-next-commit',
                                    wit, dict(error=str(e)[:200]))
                                continue
                            vals[-1] = dict(final)
                        if cache:
                            # no boundary yet: still the old snapshot
                            got = {n: c2.root()[n].v for n in w.names}
                            if got != snapshot:
                                bad('visible', 'observer-saw-undo-early', wit,
                                    dict(got=got, want=snapshot))
                        if boundary == 'abort':
                            tm2.abort()
                        elif boundary == 'begin':
                            tm2.begin()
                        elif boundary == 'sync':
                            c2.sync()
                        else:
                            c2.close()
                            c2 = w.db.open(tm2)
                        got = {n: c2.root()[n].v for n in w.names}
                        res['cov']['distinct_nontrivial'] += 1
                        if got != final:
                            bad('visible', 'observer-after-%s' % boundary,
                                wit, dict(got=got, want=final,
                                          outcome=outcome))
                        # the undoing connection too
                        got = {n: c1.root()[n].v for n in w.names}
                        if got != final:
                            bad('visible', 'undoer-after', wit,
                                dict(got=got, want=final))
                        # undo of the undo restores the undone state
                        if outcome == 'ok':
                            info = w.db.undoInfo(0, 99)
                            env.CLOCK.now += 1
                            try:
                                w.db.undo(info[0]['id'], tm1.get())
                                tm1.commit()
                                tm2.abort()
                                got = {n: c2.root()[n].v for n in w.names}
                                if got != vals[-1]:
                                    bad('visible', 'undo-of-undo', wit,
                                        dict(got=got, want=vals[-1]))
                            except UE as e:
                                tm1.abort()
                                bad('visible', 'undo-of-undo-refused', wit,
                                    dict(error=repr(e)[:200]))
                    except Exception as e:      # noqa: B902
                        bad('error', 'db:%s' % type(e).__name__, wit,
                            dict(error=repr(e)[:300]))
                    finally:
                        w.close()
    # DB.undoMultiple: several transactions undone in ONE transaction; every
    # object any of them wrote must be invalidated in every connection
    for h, ids in (([('x',), ('y',)], (1, 0)), ([('x',), ('y',)], (0, 1)),
                   ([('x',), ('y',), ('x',)], (0, 1)),
                   ([('x', 'y'), ('y',)], (1, 0)),
                   # the undoing transaction holds several records for x
                   ([('x',), ('x',)], (0, 1)),
                   ([('x', 'y'), ('x',)], (0, 1)),
                   ([('x',), ('x',), ('x',)], (0, 1, 2))):
        for cache in (True, False):
            wit = dict(kind=kind, history=h, undo_multiple=list(ids),
                       cached=cache)
            w = dbworld.DBWorld(kind, record=False)
            try:
                res['cov']['traces_validated_against_impl'] += 1
                res['cov']['states'] += 1
                tm1 = transaction.TransactionManager()
                c1 = w.db.open(tm1)
                vals = [{n: 0 for n in w.names}]
                for names in h:
                    env.CLOCK.now += 1
                    cur = dict(vals[-1])
                    for n in names:
                        c1.root()[n].v = cur[n] = w.newval()
                    tm1.get().note('t%d' % (len(vals) - 1))
                    tm1.commit()
                    vals.append(cur)
                tm2 = transaction.TransactionManager()
                c2 = w.db.open(tm2)
                if cache:
                    {n: c2.root()[n].v for n in w.names}
                # expected: undo newest-listed first, each restoring the
                # state before its transaction for the objects it wrote;
                # refused if an object was written by a later transaction
                # that is not undone as well
                info = w.db.undoInfo(0, 99)
                by_note = {d['description']: d['id'] for d in info}
                idxs = list(ids)            # 0 = newest
                hidx = [len(h) - 1 - i for i in idxs]
                # the ids are undone in the order given; an undo goes through
                # iff, for every object it wrote, it is the newest writer
                # that has not been undone yet (plain class: no merging)
                want = dict(vals[-1])
                refused = False
                undone = set()
                for hi2 in hidx:
                    for n in h[hi2]:
                        writers = [j for j in range(len(h))
                                   if n in h[j] and j not in undone]
                        if not writers or writers[-1] != hi2:
                            refused = True
                        want[n] = vals[hi2][n]
                    undone.add(hi2)
                env.CLOCK.now += 1
                UE = env.mod('ZODB.POSException').UndoError
                try:
                    w.db.undoMultiple(
                        [by_note['t%d' % j] for j in hidx], tm1.get())
                    tm1.commit()
                    outcome = 'ok'
                except UE:
                    tm1.abort()
                    outcome = 'refused'
                res['cov']['evaluations'] += 1
                res['outcomes']['multi-' + outcome] = \
                    res['outcomes'].get('multi-' + outcome, 0) + 1
                if refused != (outcome == 'refused'):
                    bad('visible', 'db-undomultiple-%s' % outcome, wit,
                        dict(expected_refused=refused))
                    continue
                final = vals[-1] if refused else want
                tm2.abort()
                got = {n: c2.root()[n].v for n in w.names}
                res['cov']['distinct_nontrivial'] += 1
                if got != final:
                    bad('visible', 'observer-after-undomultiple', wit,
                        dict(got=got, want=final))
                got = {n: c1.root()[n].v for n in w.names}
                if got != final:
                    bad('visible', 'undoer-after-undomultiple', wit,
                        dict(got=got, want=final))
                if not refused:
                    # an undo is an ordinary transaction: it can itself be
                    # undone (also when it holds two records for an object),
                    # restoring the undone state
                    env.CLOCK.now += 1
                    try:
                        w.db.undo(w.db.undoInfo(0, 1)[0]['id'], tm1.get())
                        tm1.commit()
                        outcome2 = 'ok'
                    except UE:
                        tm1.abort()
                        outcome2 = 'refused'
                    res['cov']['evaluations'] += 1
                    if outcome2 != 'ok':
                        bad('visible', 'undo-of-undomultiple-refused', wit,
                            {})
                    else:
                        tm2.abort()
                        got = {n: c2.root()[n].v for n in w.names}
                        if got != vals[-1]:
                            bad('visible', 'after-undo-of-undomultiple', wit,
                                dict(got=got, want=vals[-1]))
            except Exception as e:      # noqa: B902
                bad('error', 'db:%s' % type(e).__name__, wit,
                    dict(error=repr(e)[:300]))
            finally:
                w.close()
    return res


def run(rep, tier, seed, workers):
    depth = 6 if tier == 'quick' else 7
    cfg = dict(prop='C06', kind='F')
    rep.rule = (
        'all histories up to the depth over {create a (merging class), '
        'create b (plain class), create both, modify, modify both, rewrite '
        'identical bytes, undo k-th newest undoable transaction (k<=3), two '
        'undos in one transaction, reopen, pack}; after every step the '
        'battery is compared with the reference model; plus DB.undo '
        'scenarios (6 histories x undo target x cached/uncached observer x 4 '
        'kinds of boundary) on FileStorage and a demo storage; non-trivial = '
        'history containing an undo attempt')
    fps = seqx.explore(rep, MOD, cfg, depth, workers, seed, split=2)
    rep.cov['states'] = len(fps)
    rep.bounds['storage-level depth'] = depth
    tasks = [(MOD, 'db_scenarios', (k,)) for k in ('F', 'Fb')]
    par.run_tasks(tasks, workers, rep, seed)
    rep.assumptions = [
        'reference undo rule: current record is the undone one or has equal '
        'bytes -> previous state (un-creation if none); else merge(undone, '
        'current, previous) by the class or refuse',
        'after a pack the list model is not continued (C07 compares packed '
        'and unpacked storages instead)']


def replay(w):
    wit = w['witness']
    if 'db' in wit:
        r = db_scenarios(wit['db']['kind'])
        viol = [(v[1], v[3]) for v in r['violations']]
        sigs = {v[0] for v in viol}
    else:
        viol = seqx.replay_history(MOD, wit)
        sigs = {'C06.%s:%s' % (c, s) for c, s, d in viol}
    for v in viol:
        print(v)
    return w['signature'] not in sigs
