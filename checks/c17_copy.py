"""C17: copying or recovering a storage reproduces its full history.

(a) For every source history (commits, two-object and large records,
metadata, empty transactions, deletes, undo, resolved conflicts, restore with
back-pointer hints, pack, reopen) on a real FileStorage: copyTransactionsFrom
into a fresh FileStorage, into a FileStorage with a blob directory and
through iterator(start, stop) at every boundary pair; (b) fsrecover.recover
on the undamaged file; each result must answer the whole query battery like
the source.  Blob histories are copied between blob storages and compared
file by file.
(c) Damage: for every byte offset of the data file and each of five damage
kinds (cut the file there; overwrite 1 / 8 / 64 bytes with 0x00; 8 bytes with
0xFF), recover must terminate (read budget on the input file), output every
transaction that ends before the damage unchanged, and output no transaction
that lies wholly outside the damage in changed form.
"""
import contextlib
import io
import os

from mc import battery, env, fsparse, hclasses, par, schedx, seqx, world
from mc.battery import Exc, call, p64
from mc.refmodel import Z64

MOD = 'checks.c17_copy'
KINDS = ['new', 'new2', 'mod', 'mod2', 'big', 'meta', 'empty', 'del', 'undo',
         'undo2', 'stale', 'restore', 'pack', 'reopen']
DAMAGE = (('cut', 0, None), ('zero', 1, 0), ('zero', 8, 0), ('zero', 64, 0),
          ('ff', 8, 0xff),
          # a byte that reads as the status of a transaction still being
          # written (the checkpoint flag)
          ('c', 1, 0x63))
FIXED = [
    [('new2', 1, 2), ('mod', 1), ('undo', 0), ('mod2', 1, 2)],
    [('new', 1), ('meta', 1, 1), ('del', 1), ('new', 2), ('empty',)],
    [('new2', 1, 2), ('mod', 2), ('mod', 2), ('pack',), ('mod', 1),
     ('undo', 0)],
]


class NonTermination(BaseException):
    pass


def make_spec(cfg):
    return world.Spec(cfg.get('kinds') or KINDS, oids=(1, 2),
                      classes={1: 'R'}, undo_k=2)


# a non-initial state: three revisions, the two newest undone in ONE
# transaction (two records for the oid in it)
MULTI = [['new', 1], ['mod', 1], ['mod', 1], ['undo2', 0, 1]]


def build(cfg, hist, spec):
    return world.build(cfg.get('kind', 'F'),
                       [tuple(o) for o in cfg.get('start', [])]
                       + list(hist), spec)


def FS():
    return env.mod('ZODB.FileStorage.FileStorage').FileStorage


def obs_of(storage, oids, tids):
    o = battery.observe(storage, oids, tids, 'F', iter_level=0)
    out = {}
    for q, v in o.items():
        if q[0] == 'iterator' and not isinstance(v, Exc):
            v = [(t[0], t[1], t[2], t[3], t[4], [r[:3] for r in t[5]])
                 for t in v]
        elif q[0] == 'history' and not isinstance(v, Exc):
            v = [{k: x for k, x in d.items() if k != 'size'} for d in v]
        elif q[0] == 'len':
            continue
        out[q] = v
    # a pack may have dropped the newest (empty / garbage) transaction while
    # the live source still remembers its tid: judge lastTransaction by
    # consistency with the storage's own iterator
    it = out.get(('iterator', None, None))
    lt = out.pop(('lastTransaction',), None)
    if isinstance(it, list) and it:
        out[('lastTransaction-vs-iterator',)] = (
            'ok' if lt is not None and lt >= it[-1][0] else
            ('behind', lt, it[-1][0]))
    return out


def quiet(f, *a, **k):
    with contextlib.redirect_stdout(io.StringIO()), \
            contextlib.redirect_stderr(io.StringIO()):
        try:
            return f(*a, **k)
        except SystemExit as e:
            return Exc('SystemExit')
        except Exception as e:      # noqa: B902
            return battery.norm_exc(e)


def node(w, hist, cfg, res):
    """(a) + (b) on the source storage of this node."""
    if cfg.get('kind') == 'M':
        return m_node(w, hist, cfg, res)
    viol = []
    n = 0
    if not w.model.txns:
        return 0, False, viol
    m = w.model
    oids, tids = m.oids(), m.tids()
    src = w.storage
    want = obs_of(src, oids, tids)
    d = env.new_dir('cp')
    seen = set()

    def bad(c, s, det):
        if (c, s) not in seen:
            seen.add((c, s))
            viol.append((c, s, det))

    def compare(tag, dest):
        got = obs_of(dest, oids, tids)
        res.clause('C17.copy')
        if got != want:
            q = [k for k in want if want[k] != got.get(k)][0]
            bad('copy' if tag != 'recover' else 'clean',
                '%s:%s' % (tag, q[0]),
                dict(query=q, source=repr(want[q])[:300],
                     result=repr(got.get(q))[:300]))
    try:
        # copyTransactionsFrom into a plain and into a blob-capable storage
        for tag, kw in (('copy-F', {}),
                        ('copy-Fb', dict(blob_dir=os.path.join(d, 'bl')))):
            n += 1
            p = os.path.join(d, tag + '.fs')
            dest = FS()(p, **kw)
            try:
                r = call(dest.copyTransactionsFrom, src)
                if isinstance(r, Exc):
                    bad('copy', '%s:%s' % (tag, r.name), dict(got=repr(r)))
                else:
                    compare(tag, dest)
                    dest.close()
                    dest = FS()(p, **kw)
                    compare(tag + '-reopened', dest)
            finally:
                dest.close()
        # a copy taken while the source has voted one more transaction,
        # which is then aborted: it is not part of the source
        n += 1
        t = world.TMD(b'voter', b'voted, never finished')
        env.CLOCK.now += 1
        r = call(lambda: (src.tpc_begin(t), src.store(
            p64(0x77), Z64, hclasses.mkrec('P', 77), '', t),
            src.tpc_vote(t)))
        if isinstance(r, Exc):
            call(src.tpc_abort, t)
            bad('copy', 'during-vote:source:%s' % r.name, dict(got=repr(r)))
        else:
            dest = FS()(os.path.join(d, 'voted.fs'))
            try:
                r = call(dest.copyTransactionsFrom, src)
                if isinstance(r, Exc):
                    bad('copy', 'during-vote:%s' % r.name, dict(got=repr(r)))
                else:
                    compare('during-vote', dest)
            finally:
                dest.close()
                call(src.tpc_abort, t)
        # piecewise through iterator(start, stop) at every boundary pair
        bs = [None] + tids
        for i, a in enumerate(tids):
            n += 1
            p = os.path.join(d, 'piece%d.fs' % i)
            dest = FS()(p)
            try:
                ok = True
                for start, stop in ((None, a), (_next(a), None)):
                    it = src.iterator(start, stop)
                    r = call(dest.copyTransactionsFrom, it)
                    getattr(it, 'close', lambda: None)()
                    if isinstance(r, Exc):
                        bad('copy', 'piecewise:%s' % r.name,
                            dict(split_after=a, got=repr(r)))
                        ok = False
                        break
                if ok:
                    compare('piecewise', dest)
            finally:
                dest.close()
        # recover the undamaged file
        n += 1
        src_path = w.path
        out = os.path.join(d, 'recovered.fs')
        fsrecover = env.mod('ZODB.fsrecover')
        r = quiet(fsrecover.recover, src_path, out)
        if isinstance(r, Exc):
            bad('clean', 'recover:%s' % r.name, dict(got=repr(r)))
        else:
            dest = FS()(out)
            try:
                compare('recover', dest)
            finally:
                dest.close()
    finally:
        env.rm_dir(d)
    if hist:
        res.outcome(w.outcomes[-1])
    return n, len(tids) >= 2, viol


def _next(t):
    return p64(int.from_bytes(t, 'big') + 1)


def m_obs(storage, oids, tids):
    o = battery.observe(storage, oids, tids, 'M', iter_level=0)
    out = {}
    for q, v in o.items():
        if q[0] in ('len', 'history', 'lastTransaction'):
            continue
        if q[0] == 'iterator' and not isinstance(v, Exc):
            v = [(t[0], t[2], t[3], t[4], [r[:3] for r in t[5]]) for t in v]
        out[q] = v
    return out


def refused_copy(res):
    """A copy that the destination refuses half way (a description longer
    than a FileStorage takes) fails - and leaves the destination usable:
    not inside the refused transaction, its commit lock free, holding the
    transactions copied before."""
    from mc import hclasses
    viol = []
    d = env.new_dir('cpr')
    MS = env.mod('ZODB.MappingStorage').MappingStorage
    try:
        src = MS('src')
        for i, desc in enumerate((b'fine', b'x' * 70000)):
            env.CLOCK.now += 1
            t = world.TMD(b'u', desc)
            src.tpc_begin(t)
            src.store(p64(i + 1), b'\0' * 8, hclasses.mkrec('P', i), '', t)
            src.tpc_vote(t)
            src.tpc_finish(t)
        for tag, kw in (('F', {}),
                        ('Fb', dict(blob_dir=os.path.join(d, 'bl')))):
            res.clause('C17.copy')
            dest = FS()(os.path.join(d, tag + '.fs'), **kw)
            try:
                r = call(dest.copyTransactionsFrom, src)
                if not isinstance(r, Exc):
                    viol.append(('copy', 'refused:%s:accepted' % tag, {}))
                    continue
                if dest.tpc_transaction() is not None:
                    viol.append(('copy', 'refused:%s:left-inside-'
                                 'transaction' % tag, dict(got=repr(r)[:100])))
                lock = dest._commit_lock
                free = lock.acquire(False)
                if free:
                    lock.release()
                else:
                    viol.append(('copy', 'refused:%s:commit-lock-held' % tag,
                                 dict(got=repr(r)[:100])))
                got = call(dest.load, p64(1))
                if isinstance(got, Exc):
                    viol.append(('copy', 'refused:%s:earlier-transaction-'
                                 'lost' % tag, dict(got=repr(got))))
            finally:
                if dest.tpc_transaction() is not None:
                    # do not hang in close()
                    try:
                        dest.tpc_abort(dest.tpc_transaction())
                    except Exception:
                        pass
                dest.close()
    finally:
        env.rm_dir(d)
    return viol


def m_node(w, hist, cfg, res):
    """A MappingStorage as the source of a copy into a FileStorage."""
    viol = []
    n = 0
    if not hist:
        return 1, False, refused_copy(res)
    if not w.model.txns:
        return 0, False, viol
    m = w.model
    oids, tids = m.oids(), m.tids()
    want = m_obs(w.storage, oids, tids)
    d = env.new_dir('cpm')
    try:
        for tag, kw in (('copy-M-to-F', {}),
                        ('copy-M-to-Fb', dict(blob_dir=os.path.join(d, 'bl')))):
            n += 1
            res.clause('C17.copy')
            p = os.path.join(d, tag + '.fs')
            dest = FS()(p, **kw)
            try:
                r = call(dest.copyTransactionsFrom, w.storage)
                if isinstance(r, Exc):
                    viol.append(('copy', '%s:%s' % (tag, r.name),
                                 dict(got=repr(r)[:200])))
                    continue
                for phase in ('', '-reopened'):
                    got = m_obs(dest, oids, tids)
                    if got != want:
                        q = [k for k in want if want[k] != got.get(k)][0]
                        viol.append(('copy', '%s%s:%s' % (tag, phase, q[0]),
                                     dict(query=q, source=repr(want[q])[:300],
                                          result=repr(got.get(q))[:300])))
                        break
                    dest.close()
                    dest = FS()(p, **kw)
            finally:
                dest.close()
    finally:
        env.rm_dir(d)
    if hist:
        res.outcome(w.outcomes[-1])
    seen, out = set(), []
    for c, sg, dd in viol:
        if (c, sg) not in seen:
            seen.add((c, sg))
            out.append((c, sg, dd))
    return n, len(tids) >= 2, out


# ------------------------------------------------------------- (c) damage

class CountingFile:
    def __init__(self, f, budget):
        self.f = f
        self.budget = budget
        self.reads = 0

    def read(self, *a):
        self.reads += 1
        if self.reads > self.budget:
            raise NonTermination()
        return self.f.read(*a)

    def __getattr__(self, name):
        return getattr(self.f, name)


def txn_view(data):
    """[(tid, status, user, desc, ext, [(oid, resolved data)], start, end)]
    of a well-formed file."""
    txns = fsparse.parse(data, strict=False, check_rec_tid=False)
    rec_at = {r.pos: r for t in txns for r in t.recs}
    out = []
    for t in txns:
        if t.status == 'u':
            continue
        recs = [(r.oid, fsparse.resolve(r, rec_at)) for r in t.recs]
        deps = set()
        for r in t.recs:
            x = r
            while x is not None and x.data is None and x.back:
                deps.add(x.back)
                x = rec_at.get(x.back)
        out.append(dict(tid=t.tid, status=t.status, user=t.user,
                        desc=t.desc, ext=t.ext, recs=recs, start=t.pos,
                        end=t.pos + t.tlen + 8, deps=deps))
    return out


def damage_task(hist_index, hist, offsets):
    """Worker: every damage kind at each of the given offsets."""
    env.install()
    res = schedx._new_res()
    spec = make_spec({})
    w = world.build('F', [tuple(o) for o in hist], spec)
    w.storage.close()
    w.storage = None
    with open(w.path, 'rb') as f:
        data = f.read()
    w.close()
    src = txn_view(data)
    fsrecover = env.mod('ZODB.fsrecover')
    d = env.new_dir('dm')
    seen = set()
    real_open = open
    try:
        for off in offsets:
            for kind, length, fill in DAMAGE:
                if kind == 'cut':
                    dmg = data[:off]
                    lo, hi = off, len(data)
                else:
                    if off + length > len(data):
                        continue
                    dmg = data[:off] + bytes([fill]) * length + \
                        data[off + length:]
                    if dmg == data:
                        continue
                    lo, hi = off, off + length
                inp = os.path.join(d, 'in.fs')
                out = os.path.join(d, 'out.fs')
                for p in (inp, out, out + '.index', out + '.tmp',
                          out + '.lock'):
                    if os.path.exists(p):
                        os.unlink(p)
                for nme in os.listdir(d):
                    if '.tr' in nme:
                        os.unlink(os.path.join(d, nme))
                with real_open(inp, 'wb') as f:
                    f.write(dmg)
                budget = 50 + 20 * len(dmg)
                cf = []

                def copen(path, mode='r', *a, **k):
                    f = real_open(path, mode, *a, **k)
                    if path == inp:
                        f = CountingFile(f, budget)
                        cf.append(f)
                    return f
                fsrecover.open = copen
                res['cov']['evaluations'] += 1
                res['cov']['traces_validated_against_impl'] += 1
                term = True
                try:
                    r = quiet(fsrecover.recover, inp, out)
                except NonTermination:
                    term = False
                    r = None
                finally:
                    fsrecover.open = real_open
                    for f in cf:
                        try:
                            f.f.close()
                        except Exception:
                            pass
                tag = '%s%d' % (kind, length) if kind != 'cut' else 'cut'
                wit = dict(history_index=hist_index,
                           history=[list(o) for o in hist], offset=off,
                           damage=[kind, length, fill])

                def bad(c, s, det):
                    fs = 'C17.%s:%s' % (c, s)
                    if fs not in seen:
                        seen.add(fs)
                        res['violations'].append(('C17.' + c, fs, wit,
                                                  dict(det, **wit), 1))
                if not term:
                    bad('term', '%s:read-budget-exceeded' % tag,
                        dict(budget=budget))
                    # release the output storage that recover left open
                    _release(out)
                    continue
                if isinstance(r, Exc):
                    if off < 4:
                        continue    # "input is not a file storage"
                    bad('term', '%s:%s' % (tag, r.name), dict(got=repr(r)))
                    _release(out)
                    continue
                if not os.path.exists(out):
                    continue
                with real_open(out, 'rb') as f:
                    odata = f.read()
                try:
                    got = txn_view(odata)
                except fsparse.FormatError as e:
                    bad('sound', '%s:output-malformed' % tag,
                        dict(error=str(e)))
                    continue
                # transactions wholly outside the damage, not depending on
                # damaged records
                dirty_pos = set()
                clean = []
                for t in src:
                    touched = not (t['end'] <= lo or t['start'] >= hi)
                    if kind == 'cut' and t['end'] > lo:
                        touched = True
                    dep_dirty = any(any(
                        x['start'] <= dp < x['end'] for x in src
                        if x['tid'] in dirty_pos) for dp in t['deps'])
                    if touched or dep_dirty:
                        dirty_pos.add(t['tid'])
                    else:
                        clean.append(t)
                key = ('tid', 'status', 'user', 'desc', 'ext', 'recs')
                by_tid = {t['tid']: t for t in got}
                # complete: every clean transaction that ends before the
                # damage
                for t in clean:
                    if t['end'] <= lo:
                        g = by_tid.get(t['tid'])
                        if g is None:
                            bad('complete', '%s:transaction-before-damage-'
                                'lost' % tag, dict(tid=t['tid']))
                            break
                # sound: a clean transaction, if output, is unchanged; order
                last = b''
                clean_tids = {t['tid']: t for t in clean}
                for g in got:
                    if g['tid'] <= last:
                        bad('sound', '%s:order' % tag, dict(tid=g['tid']))
                    last = g['tid']
                    t = clean_tids.get(g['tid'])
                    if t is not None and any(g[k] != t[k] for k in key):
                        k = [k for k in key if g[k] != t[k]][0]
                        bad('sound', '%s:undamaged-transaction-changed:%s'
                            % (tag, k), dict(tid=g['tid']))
                        break
                res['cov']['distinct_nontrivial'] += 1
    finally:
        env.rm_dir(d)
    res['cov']['states'] += len(offsets)
    res['cov']['transitions'] += len(offsets) * len(DAMAGE)
    res['outcomes']['damage-history-%d' % hist_index] = len(offsets)
    return res


def _release(out):
    """recover() that did not return leaves its output storage open (lock
    file held by this process): close whatever FileStorage objects are still
    around for that path."""
    import gc
    FSc = FS()
    for o in gc.get_objects():
        try:
            if isinstance(o, FSc) and getattr(o, '_file_name', None) == \
                    os.path.abspath(out):
                o.close()
        except Exception:
            pass


def blob_copy_task():
    """Blob histories copied between blob storages, file by file."""
    env.install()
    from checks import c13_blob
    res = schedx._new_res()
    seen = set()
    hists = [
        [('bwrite', 'B'), ('commit',), ('linkN',), ('bwrite', 'N'),
         ('commit',)],
        [('bwrite', 'B'), ('commit',), ('undo', 0), ('bappend', 'B'),
         ('commit',)],
        [('linkN',), ('commit',), ('bwrite', 'N'), ('commit',), ('pack',),
         ('bwrite', 'B'), ('commit',)],
    ]
    for hi, h in enumerate(hists):
        w = c13_blob.build(dict(kind='Fb'), h, None)
        d = env.new_dir('bc')
        try:
            res['cov']['evaluations'] += 1
            res['cov']['states'] += 1
            res['cov']['traces_validated_against_impl'] += 1
            dest = FS()(os.path.join(d, 'copy.fs'),
                        blob_dir=os.path.join(d, 'blobs'))
            try:
                r = call(dest.copyTransactionsFrom, w.storage)
                if isinstance(r, Exc):
                    viol = [('copy', 'blobs:%s' % r.name, dict(got=repr(r)))]
                else:
                    viol = []
                    a = _blob_listing(w.blob_dir)
                    b = _blob_listing(os.path.join(d, 'blobs'))
                    if a != b:
                        viol.append(('copy', 'blobs:files-differ', dict(
                            source=sorted(a), copy=sorted(b))))
                    its = [battery._iter(s, None, None)
                           for s in (w.storage, dest)]
                    strip = [[(t[0], t[1], t[2], t[3], t[4],
                               [r[:3] for r in t[5]]) for t in it]
                             for it in its]
                    if strip[0] != strip[1]:
                        viol.append(('copy', 'blobs:iterator', {}))
            finally:
                dest.close()
            for c, s, det in viol:
                fs = 'C17.%s:%s' % (c, s)
                if fs not in seen:
                    seen.add(fs)
                    res['violations'].append((
                        'C17.' + c, fs, dict(blob_history=h), det, 1))
            res['cov']['distinct_nontrivial'] += 1
        finally:
            env.rm_dir(d)
            w.close()
    res['outcomes']['blob-copies'] = len(hists)
    return res


def _blob_listing(root):
    out = {}
    for dd, dirs, files in os.walk(root):
        for f in files:
            if f.endswith('.blob'):
                p = os.path.join(dd, f)
                with open(p, 'rb') as fp:
                    out[os.path.relpath(p, root)] = fp.read()
    return out


def run(rep, tier, seed, workers):
    depth = 4 if tier == 'quick' else 5
    rep.rule = (
        '(a)(b): for every source history up to the depth over the storage '
        'alphabet incl. pack: copyTransactionsFrom into FileStorage with and '
        'without blob directory, piecewise through iterator(start, stop) '
        'split after every transaction, and fsrecover on the undamaged file, '
        'each compared with the source by the full battery; 3 blob '
        'histories copied file by file; (c): for the fixed source histories '
        '(and every depth-2 history in the thorough tier) every byte offset '
        'x {cut, zero 1/8/64 bytes, 0xFF x 8}: recover under a read budget of '
        '50 + 20 x size reads, output compared with the input transaction by '
        'transaction; evaluations = copies + recoveries; non-trivial = '
        'recovery that produced an output file / history with two '
        'transactions')
    cfg = dict(prop='C17', kind='F')
    fps = seqx.explore(rep, MOD, cfg, depth, workers, seed, split=2)
    cfg3 = dict(prop='C17', kind='M',
                kinds=['new', 'mod', 'mod2', 'meta', 'empty'])
    fps |= seqx.explore(rep, MOD, cfg3, depth - 1, workers, seed, split=1)
    rep.bounds['copy from a MappingStorage: history depth'] = depth - 1
    cfg2 = dict(prop='C17', kind='F', start=MULTI)
    fps |= seqx.explore(rep, MOD, cfg2, depth - 1, workers, seed, split=1)
    rep.cov['states'] = max(len(fps), 1)
    rep.bounds['copy / clean recovery: history depth'] = depth
    rep.bounds['copy / clean recovery: depth after a two-undo '
               'transaction'] = depth - 1
    tasks = [(MOD, 'blob_copy_task', ())]
    spec = make_spec({})
    hists = list(FIXED)
    if tier != 'quick':
        # every history of depth 2 as damage source too
        def rec(h, d):
            w = world.build('F', h, spec)
            try:
                ops = w.enabled(spec) if len(h) < d else []
                if len(h) >= 2 and w.model.txns:
                    hists.append(list(h))
            finally:
                w.close()
            for op in ops:
                rec(h + [op], d)
        rec([], 2)
    for hi, h in enumerate(hists):
        w = world.build('F', [tuple(o) for o in h], spec)
        size = w.storage.getSize()
        w.close()
        offs = list(range(0, size + 1))
        step = max(1, len(offs) // (workers * 2))
        for i in range(0, len(offs), step):
            tasks.append((MOD, 'damage_task',
                          (hi, [list(o) for o in h], offs[i:i + step])))
        rep.bounds['damage: history %d offsets' % hi] = len(offs)
    par.run_tasks(tasks, workers, rep, seed)
    rep.assumptions = [
        'a transaction overlapping the damaged bytes, or depending through a '
        'back pointer on one that does, may be output in any form or not at '
        'all (the tool has no checksums); every other output transaction '
        'must be identical to its input transaction',
        'non-termination is judged by a read budget on the input file, not '
        'by wall clock']


def replay(w):
    wit = w['witness']
    if 'offset' in wit:
        r = damage_task(wit['history_index'], wit['history'],
                        [wit['offset']])
        viol = [(v[1], v[3]) for v in r['violations']]
        sigs = {v[0] for v in viol}
    elif 'blob_history' in wit:
        r = blob_copy_task()
        viol = [(v[1], v[3]) for v in r['violations']]
        sigs = {v[0] for v in viol}
    else:
        viol = seqx.replay_history(MOD, wit)
        sigs = {'C17.%s:%s' % (c, s) for c, s, d in viol}
    for v in viol:
        print(v)
    return w['signature'] not in sigs
