"""C08: packing is safe under concurrent commits and under a crash at any
point.

(a) Real threads under the controlled scheduler over a FileStorage-backed DB
with three prepared transactions and a pack time after the second: packer,
writer(s), reader, undoer, second packer; every schedule up to a preemption
bound; points at lock operations, recorded I/O ops and raw reads beyond the
committed end.
(b) Crash points: for the sequential pack and for every explored schedule of
the packer+writer harness (bound 1), every op boundary of the recorded I/O is
rebuilt as a disk image and reopened.
"""
import itertools
import os

from mc import battery, dbworld, env, fsparse, iolog, sched, schedx
from mc.battery import Exc, call, p64

MOD = 'checks.c08_packconc'
INF = b'\xff' * 8

PACK = [('pack', 'T')]
W1 = [('open',), ('w', 'x'), ('commit',), ('close',)]
W2 = [('open',), ('w', 'x'), ('commit',), ('w', 'y'), ('commit',),
      ('close',)]
WXY = [('open',), ('w', 'x'), ('w', 'y'), ('commit',), ('close',)]
R = [('open',), ('r', 'x'), ('r', 'y'), ('abort',), ('r', 'x'), ('r', 'y'),
     ('close',)]
U = [('undo-last',)]
SR = [('sload', 'x'), ('sload', 'y'), ('sload', 'x'), ('sload', 'y'),
      ('sload', 'x')]
PACKNOW = [('pack', 'now')]
# an undo log long enough to be scanned in several batches (the storage lock
# is released between batches of 20 transactions)
UL = [('undolog',)]

HARNESSES = {
    'pack+writer2': [PACK, W2],
    'pack+writer+reader': [PACK, W1, R],
    'pack+reader': [PACK, R],
    'pack+pack': [PACK, PACK],
    'pack+undo': [PACK, U],
    'pack+writerxy+writer': [PACK, WXY, W1],
    'pack+storage-reader': [PACK, SR],
    'pack+pack+pack': [PACK, PACK, PACK],
    'packnow+writer2': [PACKNOW, W2],
    'long:packnow+undolog': [PACKNOW, UL],
    'packnow+writer+storage-reader': [PACKNOW, W1, SR],
}


def setup(kind='F', bufsize=8192, extra=0):
    """DB with x,y; three more transactions (after `extra` earlier ones);
    pack time after the second."""
    import transaction
    w = dbworld.DBWorld(kind, record=True, bufsize=bufsize)
    tm = transaction.TransactionManager()
    c = w.db.open(tm)
    r = c.root()
    for name in ('x', 'y') * (extra // 2) + ('x', 'y', 'x'):
        env.CLOCK.now += 1
        o = r[name]
        o.base = o._p_serial
        o.v = w.newval()
        tm.commit()
        if name == 'y':
            # (the last time round:)
            w.T = env.CLOCK.now     # after t(x), t(y); before the last
            w.Ttid = r[name]._p_serial
    c.close()
    env.CLOCK.now += 1
    return w


class Prog08(dbworld.Prog):
    def step(self, st):
        w = self.w
        if st[0] == 'pack':
            w.log('pack-start', self.tid)
            iolog.LOG.mark('pack-start', self.tid)
            try:
                w.db.pack(w.T if st[1] == 'T' else env.CLOCK.now - 0.5)
                w.log('pack-done', self.tid)
                iolog.LOG.mark('pack-done', self.tid)
            except Exception as e:      # noqa: B902
                w.log('pack-failed', self.tid, type(e).__name__,
                      str(e)[:80])
                iolog.LOG.mark('pack-failed', self.tid)
            return
        if st[0] == 'undolog':
            UE = env.mod('ZODB.POSException').UndoError
            try:
                log = w.storage.undoLog(0, 1000)
                w.log('undolog', self.tid, tuple(d['id'] for d in log))
            except UE:
                w.log('undolog-refused', self.tid)      # pack in progress
            except Exception as e:      # noqa: B902
                w.log('undolog-error', self.tid, type(e).__name__,
                      str(e)[:80])
            return
        if st[0] == 'sload':
            # a storage-level reader: every load goes to the file
            try:
                data, serial = w.storage.load(w.oids[st[1]])
                w.log('sload', self.tid, st[1], serial,
                      dbworld.decode_state(data).get('v'))
            except Exception as e:      # noqa: B902
                w.log('sload-error', self.tid, st[1], type(e).__name__,
                      str(e)[:80])
            return
        if st[0] == 'undo-last':
            import transaction
            tm = transaction.TransactionManager()
            UE = env.mod('ZODB.POSException').UndoError
            try:
                info = w.db.undoInfo(0, 5)
                w.db.undo(info[0]['id'], tm.get())
                tm.commit()
                w.log('undo-done', self.tid)
            except UE as e:
                tm.abort()
                w.log('undo-refused', self.tid, str(e)[:60])
            except Exception as e:      # noqa: B902
                tm.abort()
                CE = env.mod('ZODB.POSException').ConflictError
                w.log('undo-failed', self.tid, type(e).__name__,
                      isinstance(e, CE))
            return
        if st[0] == 'commit':
            super().step(st)
            # position of the acknowledgement in the I/O log
            last = [e for e in w.events if e[0] in ('commit-done',
                                                    'commit-failed')][-1]
            if last[0] == 'commit-done':
                iolog.LOG.mark('commit-done', last[1], last[2])
            return
        super().step(st)


class BlobPackWorld:
    """A DB over the BlobStorage wrapper (over FileStorage 'BF' or
    MappingStorage 'BM') with a blob B that has two revisions, for the
    packer + blob committer harnesses."""

    def __init__(self, kind):
        import os
        import transaction
        env.reset_globals()
        dbworld.own_hash_order()
        self.kind = kind
        self.dir = env.new_dir('bw')
        FS = env.mod('ZODB.FileStorage.FileStorage').FileStorage
        MS = env.mod('ZODB.MappingStorage').MappingStorage
        BS = env.mod('ZODB.blob').BlobStorage
        self.Blob = env.mod('ZODB.blob').Blob
        base = (FS(os.path.join(self.dir, 'Data.fs')) if kind == 'BF'
                else MS('m'))
        self.storage = BS(os.path.join(self.dir, 'bl'), base)
        self.db = env.mod('ZODB.DB').DB(self.storage)
        self.events = []
        tm = transaction.TransactionManager()
        c = self.db.open(tm)
        b = self.Blob()
        with b.open('w') as f:
            f.write(b'B0')
        c.root()['B'] = b
        env.CLOCK.now += 1
        tm.commit()
        with b.open('w') as f:
            f.write(b'B1')
        env.CLOCK.now += 1
        tm.commit()
        c.close()
        env.CLOCK.now += 1
        self.expected = {'B': b'B1'}

    def log(self, *ev):
        self.events.append(ev)

    def close(self):
        try:
            self.db.close()
        except Exception:
            pass
        env.rm_dir(self.dir)


def blob_run_one(cfg, choices):
    import transaction
    sched.install_locks()
    w = BlobPackWorld(cfg['kind'])

    def committer(s, t):
        tm = transaction.TransactionManager()
        c = w.db.open(tm)
        data = b'new-' + cfg['what'].encode()
        if cfg['what'] == 'create':
            b = w.Blob()
            c.root()['N'] = b
            name = 'N'
        else:
            b = c.root()['B']
            name = 'B'
        with b.open('w') as f:
            f.write(data)
        tm.commit()
        w.expected[name] = data
        w.log('commit-done', name)
        c.close()

    def packer(s, t):
        w.db.pack(env.CLOCK.now - 0.5)
        w.log('pack-done')
    S = sched.Scheduler([packer, committer], choices)
    S.run()
    return S, w


def blob_judge(cfg, S, w):
    import transaction
    from mc.battery import call
    for t in S.threads:
        if t.outcome and t.outcome[0] == 'exc':
            e = t.outcome[1]
            return 'thread-exc', [('error', 'blobwrap:%s:thread:%s' % (
                cfg['kind'], type(e).__name__),
                dict(thread=t.id, error=repr(e)[:300]))]
    if S.verdict is not None:
        return 'verdict-%s' % S.verdict, []
    viol = []
    tm = transaction.TransactionManager()
    c = w.db.open(tm)
    try:
        root = c.root()
        for name, data in sorted(w.expected.items()):
            got = call(lambda: root[name].open('r').read())
            if got != data:
                viol.append(('lost', 'blobwrap:%s:%s:committed-blob-'
                             'unreadable' % (cfg['kind'], cfg['what']),
                             dict(blob=name, expected=data,
                                  got=repr(got)[:120])))
    finally:
        tm.abort()
        c.close()
    return 'blobwrap-' + '-'.join(e[0] for e in w.events), viol


def run_one(cfg, choices):
    if cfg.get('blobwrap'):
        return blob_run_one(cfg, choices)
    sched.install_locks()
    iolog.READS[0] = True
    w = setup(cfg.get('kind', 'F'), cfg.get('bufsize', 8192),
              extra=22 if cfg['name'].startswith('long:') else 0)
    # the packer proper runs after the request was admitted: two threads
    # inside it at once means a concurrent pack was not refused
    orig_packer = w.storage.packer

    def packer(storage, referencesf, stop, gc):
        t = sched._me()
        w.log('packer-enter', t.id if t else -1)
        try:
            return orig_packer(storage, referencesf, stop, gc)
        finally:
            w.log('packer-exit', t.id if t else -1)
    w.storage.packer = packer
    w.snap0 = iolog.snapshot(w.dir)
    w.k0 = len(iolog.LOG.ops)
    w.revs0 = w.revisions()
    progs = [Prog08(w, i, [tuple(s) for s in steps])
             for i, steps in enumerate(HARNESSES[cfg['name']])]
    bodies = [(lambda s, t, p=p: p.run()) for p in progs]
    tf = None
    if cfg.get('lines'):
        fsm = env.mod('ZODB.FileStorage.FileStorage').__file__
        tf = {(fsm, 'get'), (fsm, 'write_lock'), (fsm, 'pack'),
              (fsm, 'empty'), (fsm, 'flush')}
    S = sched.Scheduler(bodies, choices, trace_funcs=tf)
    base_end = w.storage.getSize()

    def hook(op):
        t = sched._me()
        if t is not None and not S.killed:
            S.point(t, 'io')

    def rhook(path, pos, n):
        if n < 0 or pos + n > base_end:
            t = sched._me()
            if t is not None and not S.killed:
                S.point(t, 'read')
    iolog.LOG.point_hook = hook
    iolog.LOG.read_hook = rhook
    S.run()
    iolog.LOG.point_hook = None
    iolog.LOG.read_hook = None
    w.ops = list(iolog.LOG.ops)
    return S, w


def cleanup(w):
    w.close()


def xy_revs(w, revs):
    return {n: revs.get(o, []) for n, o in w.oids.items()}


def judge(cfg, S, w):
    if cfg.get('blobwrap'):
        return blob_judge(cfg, S, w)
    from checks import c02_snapshot, c03_lostupdate
    viol = []
    if 'packnow' in cfg['name']:
        # pack to "now": everything prepared is at or before the pack time
        w.Ttid = max(t for rl in xy_revs(w, w.revs0).values()
                     for t, _ in rl)
    for t in S.threads:
        if t.outcome and t.outcome[0] == 'exc':
            e = t.outcome[1]
            return 'thread-exc', [('error', 'thread:%s' % type(e).__name__,
                                   dict(thread=t.id, error=repr(e)[:300]))]
    if S.verdict is not None:
        return 'verdict-%s' % S.verdict, []
    # readers: one snapshot each, no error at all (their snapshot is newer
    # than the pack time)
    k2, v2 = c02_snapshot.judge_events(w)
    viol += [(c, 'reader:' + s, d) for c, s, d in v2]
    # writers: no lost update, failed commits justified
    k3, v3 = c03_lostupdate.judge_events(w)
    if cfg['name'] == 'pack+undo':
        v3 = []         # an undo restores an older state on purpose
    viol += [(c, 'writer:' + s, d) for c, s, d in v3 if c != 'error']
    evs = [e[0] for e in w.events]
    # a long undo log: an answer (distinct ids) or the refusal
    for e in w.events:
        if e[0] == 'undolog-error':
            viol.append(('error', 'undolog:%s' % e[2], dict(event=e)))
        elif e[0] == 'undolog' and len(set(e[2])) != len(e[2]):
            viol.append(('error', 'undolog:duplicates', dict(event=e)))
    # a pack that fails: only the second concurrent pack may be refused
    packs = [e for e in w.events if e[0] in ('pack-done', 'pack-failed')]
    failed = [e for e in packs if e[0] == 'pack-failed']
    for e in failed:
        if not (cfg['name'].startswith('pack+pack')
                and e[2] == 'FileStorageError'
                and 'Already packing' in e[3]):
            viol.append(('failpack', '%s:%s' % (cfg['name'], e[2]),
                         dict(event=e)))
    if cfg['name'] == 'pack+pack' and len(failed) > 1:
        viol.append(('second', 'both-packs-refused', dict(events=packs)))
    if cfg['name'].startswith('pack+pack'):
        for e in failed:
            if not (e[2] == 'FileStorageError' and 'Already packing' in e[3]):
                continue
        # while one pack is in progress every other request is refused: two
        # packs whose executions overlap must not both go through
        inside = 0
        for e in w.events:
            if e[0] == 'packer-enter':
                inside += 1
                if inside > 1:
                    viol.append(('second', 'two-packs-ran-concurrently',
                                 dict(events=[x for x in w.events
                                              if x[0].startswith('pack')])))
                    break
            elif e[0] == 'packer-exit':
                inside -= 1
        if failed and len(failed) == len(packs):
            viol.append(('second', 'every-pack-refused',
                         dict(events=packs)))
    for e in w.events:
        if e[0] == 'undo-failed':
            viol.append(('error', 'undo:%s' % e[2], dict(event=e)))
        if e[0] == 'sload-error':
            viol.append(('readers', 'storage-load:%s' % e[3], dict(event=e)))
    # every commit that returned is there after close + reopen, and the
    # reopened file equals the live state
    revs_live = xy_revs(w, w.revisions())
    for e in w.events:
        if e[0] == 'sload':
            if not any(t == e[3] and st.get('v') == e[4]
                       for t, st in revs_live[e[2]] +
                       xy_revs(w, w.revs0)[e[2]]):
                viol.append(('readers', 'storage-load:wrong-state',
                             dict(event=e)))
    w.db.close()
    FS = env.mod('ZODB.FileStorage.FileStorage').FileStorage
    iolog.LOG.recording = False
    s = call(FS, w.path)
    if isinstance(s, Exc):
        viol.append(('commits', 'reopen:%s' % s.name, dict(got=repr(s))))
    else:
        try:
            w.storage = s
            revs_re = xy_revs(w, w.revisions())
            if revs_re != revs_live:
                viol.append(('commits', 'reopen-differs',
                             dict(live=repr(revs_live)[:300],
                                  reopened=repr(revs_re)[:300])))
            with open(w.path, 'rb') as f:
                data = f.read()
            try:
                fsparse.parse(data, strict=True)
            except fsparse.FormatError as e:
                viol.append(('commits', 'file:%s' % str(e).split(' at ')[0][
                    :40], dict(error=str(e))))
            # everything after the pack time that was there before is there
            for n, rl in xy_revs(w, w.revs0).items():
                for tid, st in rl:
                    if tid > w.Ttid or tid == max(
                            [t for t, _ in rl if t <= w.Ttid] or [b'']):
                        if (tid, st) not in revs_re[n]:
                            viol.append(('commits', 'pack-lost-revision',
                                         dict(obj=n, tid=tid)))
        finally:
            s.close()
    if cfg.get('crash') and not viol:
        viol += crash_images(cfg, w, revs_live)
    key = repr((k3, tuple(e for e in evs if e.startswith('pack-')
                          or e.startswith('undo-')), k2))
    return key, viol


def crash_images(cfg, w, revs_final):
    """Every op boundary after the start of the pack: reopen the image."""
    viol = []
    ops = w.ops
    disk = iolog.Disk(w.dir, w.snap0)
    for op in ops[:w.k0]:
        disk.apply(op)
    FS = env.mod('ZODB.FileStorage.FileStorage').FileStorage
    done = []           # commits acknowledged so far: (thread, txn)
    val_of = {}         # (thread, txn) -> [(name, value)]
    for ev in w.events:
        if ev[0] == 'write':
            val_of.setdefault((ev[1], ev[2]), []).append((ev[3], ev[5]))
    packing = False
    seen = set()
    n = 0
    last_img = None
    for k in range(w.k0, len(ops) + 1):
        if k > w.k0:
            op = ops[k - 1]
            disk.apply(op)
            if op[0] == 'mark':
                if op[1] == 'pack-start':
                    packing = True
                if op[1] == 'commit-done':
                    done.append((op[2], op[3]))
                continue
            if op[0] in ('fsync', 'chmod'):
                continue
        if not packing:
            continue
        img = {k2: bytes(v) for k2, v in disk.files.items()
               if v is not None}
        if img == last_img:
            continue
        last_img = img
        n += 1
        d = env.new_dir('cr')
        try:
            disk.materialize(d, skip=('.lock',))
            path = os.path.join(d, 'Data.fs')
            where = _where(ops, k)
            s = call(FS, path)
            if isinstance(s, Exc):
                sig = 'open:%s:%s' % (where, s.name)
                if sig not in seen:
                    seen.add(sig)
                    viol.append(('crash', sig, dict(op_index=k - w.k0,
                                                    got=repr(s))))
                continue
            try:
                w2 = _View(w, s)
                revs = xy_revs(w, w2.revisions())
                bad = None
                for n_, rl in revs.items():
                    # nothing invented
                    for item in rl:
                        if item not in revs_final[n_] and \
                                item not in xy_revs(w, w.revs0)[n_]:
                            bad = ('invented-revision', n_, item[0])
                    # what was current at T and everything after it that
                    # existed before the pack started
                    for tid, st in xy_revs(w, w.revs0)[n_]:
                        keepme = tid > w.Ttid or tid == max(
                            [t for t, _ in xy_revs(w, w.revs0)[n_]
                             if t <= w.Ttid] or [b''])
                        if keepme and (tid, st) not in rl:
                            bad = ('lost-revision', n_, tid)
                # every acknowledged commit
                for key in done:
                    for name, v in val_of.get(key, []):
                        if not any(st.get('v') == v for _, st in revs[name]):
                            bad = ('lost-acknowledged-commit', name, v)
                if bad:
                    sig = '%s:%s' % (bad[0], where)
                    if sig not in seen:
                        seen.add(sig)
                        viol.append(('crash', sig, dict(
                            op_index=k - w.k0, what=bad,
                            files=sorted(img))))
            finally:
                s.close()
        finally:
            env.rm_dir(d)
    w.images = n
    return viol


class _View:
    def __init__(self, w, storage):
        self.storage = storage
        self.kind = w.kind

    revisions = dbworld.DBWorld.revisions


def _where(ops, k):
    if k >= len(ops):
        return 'end'
    op = ops[k]
    name = os.path.basename(str(op[1])) if len(op) > 1 else ''
    return 'before-%s-%s' % (op[0], name.replace('Data.fs', 'D'))


# ------------------------------------------------ packs that cannot complete

FAULT_HIST = [('new', 1), ('mod', 1), ('new', 2), ('mod', 1), ('mod', 2)]


def pack_fault_task(variant):
    """One injected failure (ENOSPC) at the n-th file-system operation of a
    pack, for every n; or a stale Data.fs.old that cannot be removed.  The
    pack fails or completes; if it fails the database is usable and
    unchanged: same answers, the next commit and the next pack go through
    (no lock left behind, no 'already packing'), the file reopens."""
    from mc import battery, sched, world
    from mc.battery import Exc, call, p64
    from ZODB.serialize import referencesf
    env.install()
    res = schedx._new_res()
    seen = set()

    def bad(c, sg, wit, det):
        fs = 'C08.%s:%s' % (c, sg)
        if fs not in seen:
            seen.add(fs)
            res['violations'].append(('C08.' + c, fs, dict(
                packfault=wit), det, 1))
    twin = [None]

    def pack_time(m):
        # 'fault-mid': two transactions are younger than the pack time, so
        # the packer copies them one by one, letting go of the commit lock
        # in between
        if variant == 'fault-mid':
            from persistent.TimeStamp import TimeStamp
            return TimeStamp(m.tids()[2]).timeTime()
        return env.CLOCK.now

    def packed_twin():
        env.reset_globals()
        sched.install_locks()
        t = world.World('F', record=True)
        sp = world.Spec(['new', 'mod'], oids=(1, 2, 3), classes={})
        try:
            for op in FAULT_HIST:
                t.apply(op, sp)
            env.CLOCK.now += 1
            t.storage.pack(pack_time(t.model), referencesf, gc=False)
            return battery.observe(t.storage, t.model.oids(),
                                   t.model.tids(), 'F', iter_level=0)
        finally:
            t.close()
    twin[0] = packed_twin()
    n = 0
    while n < 400:
        env.reset_globals()
        sched.install_locks()
        w = world.World('F', record=True)
        spec = world.Spec(['new', 'mod'], oids=(1, 2, 3), classes={})
        try:
            for op in FAULT_HIST:
                w.apply(op, spec)
            m = w.model
            s = w.storage
            pre = battery.observe(s, m.oids(), m.tids(), 'F', iter_level=0)
            env.CLOCK.now += 1
            wit = dict(variant=variant, n=n)
            if variant == 'stale-old':
                # a leftover of an earlier pack that cannot be removed
                os.mkdir(w.path + '.old')
                r = call(s.pack, env.CLOCK.now, referencesf, gc=False)
                os.rmdir(w.path + '.old')
                inj = ('stale-old',)
            else:
                iolog.LOG.arm(n, 0)
                r = call(s.pack, pack_time(m), referencesf, gc=False)
                inj = iolog.LOG.injected
                iolog.LOG.disarm()
                if inj is None:
                    break           # past the last operation of a pack
            res['cov']['traces_validated_against_impl'] += 1
            res['cov']['states'] += 1
            res['cov']['transitions'] += len(FAULT_HIST) + 1
            res['cov']['evaluations'] += 1
            res['cov']['distinct_nontrivial'] += 1
            label = 'pack-fault:%s:%s' % (inj[0], 'failed' if isinstance(
                r, Exc) else 'completed')
            res['outcomes'][label] = res['outcomes'].get(label, 0) + 1
            det = dict(injected=repr(inj)[:160], result=repr(r)[:120])
            if isinstance(r, Exc):
                post = call(battery.observe, s, m.oids(), m.tids(), 'F',
                            iter_level=0)
                if isinstance(post, Exc):
                    bad('failed', 'unusable:%s' % post.name, wit, det)
                elif post != pre:
                    # a pack that raises after it has swapped the files
                    # (removing .old, saving the index) has completed: it
                    # must then be the packed database
                    if post == twin[0]:
                        res['outcomes'][label + ':after-completion'] = 1
                    else:
                        q = [k for k in pre if pre[k] != post.get(k)][0]
                        bad('failed', 'changed:%s' % q[0], wit, dict(
                            det, query=repr(q)))
            # usable: the next commit, the next pack, a reopen
            try:
                out = w.apply(('mod', 1), spec)
                if out != 'commit' or w.violations:
                    bad('failed', 'next-commit:%s' % out, wit, dict(
                        det, step=repr(w.violations[:1])[:200]))
                else:
                    env.CLOCK.now += 1
                    r2 = call(s.pack, env.CLOCK.now, referencesf, gc=False)
                    if isinstance(r2, Exc):
                        bad('failed', 'next-pack:%s' % r2.name, wit, dict(
                            det, got=repr(r2)[:160]))
                    w.storage.close()
                    r3 = call(w.open)
                    if isinstance(r3, Exc):
                        bad('failed', 'reopen:%s' % r3.name, wit, det)
                    else:
                        cur = {o: call(w.storage.load, o) for o in m.oids()}
                        want = {o: m.load(o) for o in m.oids()}
                        if any(isinstance(cur[o], Exc)
                               or tuple(cur[o]) != tuple(want[o])
                               for o in m.oids()):
                            bad('failed', 'reopened-state', wit, det)
            except sched.DeadlockError as e:
                bad('failed', 'lock-left-behind', wit, dict(
                    det, error=str(e)[:160]))
        finally:
            iolog.LOG.disarm()
            w.close()
        if variant == 'stale-old':
            break
        n += 1
    return res


def run(rep, tier, seed, workers):
    bound = 2 if tier == 'quick' else 3
    rep.rule = (
        'schedules: every schedule with at most the stated number of '
        'preemptions of packer + {writer with two commits, writer + reader, '
        'reader, second packer, undoer, two writers} over a FileStorage DB '
        'with 3 prepared transactions and a pack time after the second; '
        'oracles: snapshot and lost-update oracles of C02/C03 on the event '
        'log, pack may fail only as the refused second pack, reopened file '
        'equals live state and parses, nothing at or after T lost; crash: '
        'for every schedule of packer+writer (bound 1) and the sequential '
        'pack, every op boundary after the pack started is rebuilt as a disk '
        'image and reopened: nothing invented, nothing at/after T lost, '
        'every acknowledged commit present; faults: one ENOSPC at the n-th '
        'file-system operation of a sequential pack for every n, and a '
        'stale Data.fs.old that cannot be removed: the pack fails or '
        'completes, a failed one leaves the same answers, the next commit, '
        'the next pack and a reopen work')
    plan = []
    for name in HARNESSES:
        three = len(HARNESSES[name]) == 3
        b = bound - 1 if three else bound
        if name.startswith('long:'):
            b = 1 if tier == 'quick' else 2     # 25 transactions to pack
        plan.append((dict(prop='C08', name=name), b))
        rep.bounds['%s preemptions' % name] = b
    # buffers smaller than a transaction: read-ahead and partial flushes
    # matter (the packer must not look at the tail through a buffer)
    for bs in (64, 96, 160):
        plan.append((dict(prop='C08', name='pack+writer2', bufsize=bs),
                     bound))
    rep.bounds['pack+writer2 with 64 / 96 / 160-byte buffers: '
               'preemptions'] = bound
    plan.append((dict(prop='C08', name='pack+writer2', crash=1), 1))
    rep.bounds['pack+writer2 x crash images: preemptions'] = 1
    for name in ('pack+reader', 'pack+storage-reader'):
        plan.append((dict(prop='C08', name=name, lines=1),
                     1 if tier == 'quick' else 2))
        rep.bounds['%s line-level preemptions' % name] = plan[-1][1]
    # the BlobStorage wrapper's own pack (it walks the blob directory
    # without the commit lock) against a transaction that stores a blob
    # (over a FileStorage the wrapped pack needs the commit lock before
    # the walk starts, so a commit in progress *during* the walk takes
    # three preemptions: into the committer, back after its storeBlob, and
    # into its tpc_finish between two steps of the walk)
    for kind in ('BF', 'BM'):
        for what in ('create', 'rewrite'):
            b = bound
            if kind == 'BF' and (what == 'rewrite' or tier != 'quick'):
                b = 3
            plan.append((dict(prop='C08', name='blobwrap:pack+committer',
                              blobwrap=1, kind=kind, what=what), b))
            rep.bounds['BlobStorage wrapper (%s), pack + committer (%s): '
                       'preemptions' % (kind, what)] = b
    schedx.explore_many(rep, MOD, plan, workers, seed)
    from mc import par
    par.run_tasks([(MOD, 'pack_fault_task', (v,))
                   for v in ('fault', 'fault-mid', 'stale-old')], workers,
                  rep, seed)
    rep.cov['distinct_nontrivial'] = len(rep.outcomes)
    rep.assumptions = [
        'crash model: prefix of the issued file-system operations in issue '
        'order (renames are atomic and ordered)',
        'readers in the harness take their snapshot after the pack time, so '
        'no error at all is acceptable for them']


def replay(w):
    if 'packfault' in w['witness']:
        viol = pack_fault_task(w['witness']['packfault']['variant'])[
            'violations']
    else:
        viol = schedx.replay(MOD, w['witness'])
    for v in viol:
        print(v[1], v[3])
    return w['signature'] not in {v[1] for v in viol}
