"""C12: savepoint rollback restores the savepoint state exactly, any number
of times.

All operation sequences up to a depth on a real connection: modify existing /
new objects, link / add / unlink new objects, take savepoints, roll back to
any savepoint that is still valid (repeatedly, nested, after later
savepoints), commit, abort.  After every step every tracked object is compared
with the model's snapshot (value, ownership), the observer connection must
see only committed state, and no temporary store file or savepoint blob
directory may survive the transaction.
"""
import gc
import os

from mc import connworld, env, seqx

MOD = 'checks.c12_savepoint'
KINDS = ['mod', 'link', 'add', 'unlink', 'savepoint', 'rollback', 'commit',
         'abort']


def make_spec(cfg):
    return dict(kinds=cfg.get('kinds') or KINDS,
                objects=cfg.get('objects', ('a', 'n')),
                max_handles=cfg.get('max_handles', 2),
                rival_with_savepoints=cfg.get('rival', False))


def build(cfg, hist, spec):
    w = connworld.ConnWorld(cfg['kind'])
    for op in hist:
        w.apply(tuple(op))
    return w


def open_tmpstores():
    """TmpStore temporary files still open in this process."""
    n = 0
    try:
        for fd in os.listdir('/proc/self/fd'):
            try:
                t = os.readlink('/proc/self/fd/' + fd)
            except OSError:
                continue
            if 'TmpStore' in t:
                n += 1
    except OSError:
        pass
    return n


def node(w, hist, cfg, res):
    if w.dead:
        return 0, False, []
    nv = len(w.violations)
    n = w.check()
    if hist:
        res.outcome(w.outcomes[-1])
    viol = w.violations[nv:]
    w.violations = w.violations[:nv]
    res.clause('C12.state', n)
    # nothing of the savepoints is left once the transaction is over
    if hist and hist[-1][0] in ('commit', 'abort'):
        res.clause('C12.clean')
        n += 1
        if w.conn._savepoint_storage is not None:
            viol.append(('clean', 'savepoint-storage-kept', {}))
        gc.collect()
        left = open_tmpstores()
        if left:
            viol.append(('clean', 'tmpstore-file-open', dict(files=left)))
        # ... nor a directory with the savepoints' blob files
        bd = getattr(w.storage, 'blob_dir', None)
        if bd:
            tmpd = os.path.join(bd, 'tmp')
            stray = sorted(os.listdir(tmpd)) if os.path.isdir(tmpd) else []
            if stray:
                viol.append(('clean', 'blob-temporary-files-left',
                             dict(left=stray[:4])))
    return n, any(o == 'rollback' for o in w.outcomes), viol


def run(rep, tier, seed, workers):
    depth = 6 if tier == 'quick' else 7
    rep.rule = (
        'all sequences up to the depth over {modify a / n, rewrite the blob '
        'B (FileStorage with a blob directory), link n, add n, '
        'unlink n, savepoint (at most 2 live handles; 3 thorough), rollback '
        'to any live handle, commit, abort} on a real connection, and over '
        '{modify a / b, savepoint, rollback, rival commit to a (our commit '
        'then conflicts), commit with another participant failing in its '
        'vote, commit, abort}; after '
        'every step ownership and value of every tracked object, root '
        'membership, the records stored by a commit and the observer\'s view '
        'are compared with the model; non-trivial = sequence containing a '
        'rollback')
    states = 0
    plan = [dict(prop='C12', kind='M', d=depth),
            dict(prop='C12', kind='F', d=depth - 1),
            # blob writes: an existing blob next to a plain and a new object
            dict(prop='C12', kind='Fb', d=depth - 1,
                 objects=('a', 'n', 'B'), kinds=KINDS + ['bwrite']),
            # ... and a commit that fails on a conflict after savepoints
            # that hold a blob
            dict(prop='C12', kind='Fb', d=depth - 1, rival=True,
                 objects=('a', 'B'),
                 kinds=['mod', 'bwrite', 'savepoint', 'rollback', 'rival',
                        'commit', 'abort'])]
    # a commit that fails (conflict with a rival, another participant's
    # vote) after savepoints: two existing objects
    plan.append(dict(prop='C12', kind='M', d=depth - 1, rival=True,
                     objects=('a', 'b'),
                     kinds=['mod', 'savepoint', 'rollback', 'rival', 'commit',
                            'commit-vote-fail', 'abort']))
    # new objects held by a savepoint when the commit fails after the
    # connection has voted (only tpc_abort runs then)
    plan.append(dict(prop='C12', kind='M', d=depth - 1, objects=('n',),
                     kinds=['mod', 'link', 'add', 'savepoint', 'rollback',
                            'commit-vote-fail', 'commit-finish-fail',
                            'commit', 'abort']))
    # a savepoint (or commit) that fails while it flushes: one of two new
    # objects cannot be pickled
    plan.append(dict(prop='C12', kind='M', d=depth - 2, objects=('n', 'm'),
                     unpicklable=True,
                     kinds=['link', 'add', 'savepoint', 'rollback',
                            'savepoint-unpicklable', 'commit-unpicklable',
                            'commit', 'abort']))
    if tier != 'quick':
        plan.append(dict(prop='C12', kind='M', d=depth - 1,
                         objects=('a', 'n', 'm'), max_handles=3))
    for cfg in plan:
        d = cfg.pop('d')
        fps = seqx.explore(rep, MOD, cfg, d, workers, seed, split=3)
        states += len(fps)
        rep.bounds['%s%s depth' % (cfg['kind'], '/3obj' if cfg.get(
            'max_handles') else '/failing commits' if cfg.get('rival')
            else '/new object, commits failing after the vote'
            if cfg.get('objects') == ('n',)
            else '/two new objects, flush failing at one'
            if cfg.get('unpicklable') else '')] = d

    rep.cov['states'] = max(states, 1)
    rep.assumptions = [
        'the in-memory attributes of an object that belongs to no database '
        '(un-added by a rollback or abort) are not compared']


def replay(w):
    viol = seqx.replay_history(MOD, w['witness'])
    for v in viol:
        print(v)
    sigs = {'C12.%s:%s' % (c, s) for c, s, d in viol}
    return w['signature'] not in sigs
