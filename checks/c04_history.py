"""C04: the storage answers every revision query from the committed history.

All histories over the storage alphabet up to a depth, on FileStorage and
MappingStorage; after every step the complete query battery of the real
storage is compared with the reference model (an ordered list of
transactions).  Clock stalls / steps back and close+reopen are ordinary
steps of the alphabet.
"""
from mc import battery, env, fsparse, seqx, world

MOD = 'checks.c04_history'

KINDS_F = ['new', 'new2', 'mod', 'mod2', 'big', 'meta', 'empty', 'del', 'undo',
           'stale', 'stalegone', 'restore', 'ab1', 'ab2', 'stall', 'back', 'reopen', 'reopenx']
KINDS_M = ['new', 'new2', 'mod', 'mod2', 'big', 'meta', 'empty', 'stale', 'ab1',
           'stall', 'back']


def make_spec(cfg):
    kinds = cfg.get('kinds') or (KINDS_F if cfg['kind'] in ('F', 'Fb')
                                 else KINDS_M)
    return world.Spec(kinds, oids=cfg.get('oids', (1, 2)),
                      classes={int(k): v for k, v in
                               cfg.get('classes', {}).items()},
                      undo_k=cfg.get('undo_k', 2))


def build(cfg, hist, spec):
    return world.build(cfg['kind'], hist, spec)


def node(w, hist, cfg, res):
    m = w.model
    exp = battery.expect(m, iter_level=cfg.get('iter_level', 1))
    obs = battery.observe(w.storage, m.oids(), m.tids(), w.flavor,
                          iter_level=cfg.get('iter_level', 1))
    bad = battery.compare(exp, obs, m)
    viol = []
    for q, e, g in bad[:3]:
        viol.append(('battery', battery.sig_of(cfg['kind'], q, e, g),
                     dict(query=q, expected=repr(e)[:400],
                          got=repr(g)[:400])))
    res.clause('C04.battery', len(exp))
    if w.flavor == 'F':
        with open(w.path, 'rb') as f:
            diff = fsparse.check_against_model(f.read(), m)
        res.clause('C04.struct')
        if diff:
            viol.append(('struct', '%s:%s' % (cfg['kind'],
                                              diff.split(':')[0]),
                         dict(diff=diff)))
    if hist:
        res.outcome(w.outcomes[-1] if w.outcomes else hist[-1][0])
    return len(exp), len(m.txns) >= 2, viol


def run(rep, tier, seed, workers):
    if tier == 'quick':
        plan = [dict(prop='C04', kind='F', classes={1: 'R'}, depth=4),
                dict(prop='C04', kind='M', depth=5)]
    else:
        plan = [dict(prop='C04', kind='F', classes={1: 'R'}, depth=5),
                dict(prop='C04', kind='M', depth=6)]
    rep.rule = (
        'all histories over the alphabet (one step = one whole transaction '
        'attempt, clock move or reopen) up to the depth, executed on the real '
        'storage; after every step every query of the battery (load, '
        'loadBefore at every tid boundary, loadSerial, getTid, history, '
        'undoLog/undoInfo, iterator at every start/stop boundary, '
        'record_iternext, lastTransaction) is compared with the list model; '
        'non-trivial = history with at least two committed transactions')
    states = 0
    for cfg in plan:
        depth = cfg.pop('depth')
        fps = seqx.explore(rep, MOD, cfg, depth, workers, seed)
        states += len(fps)
        rep.bounds['%s depth' % cfg['kind']] = depth
    rep.cov['states'] = states
    rep.assumptions = [
        'a query that lands on an un-creation / deletion record may answer '
        'POSKeyError or None',
        'iterator data_txn must name an earlier transaction holding the same '
        'bytes; history size is compared only for records holding data',
        'len(storage) is not compared (IStorage calls it approximate)']


def replay(w):
    viol = seqx.replay_history(MOD, w['witness'])
    for v in viol:
        print(v)
    sigs = {'C04.%s:%s' % (c, s) for c, s, d in viol}
    return w['signature'] not in sigs
