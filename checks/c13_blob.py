"""C13: blob data commits, aborts, undoes and packs together with its object
record.

All operation sequences up to a depth on a real connection over a
FileStorage with a blob directory: rewrite / append / consumeFile on an
existing and on a new blob, link the new blob, modify a plain object,
savepoint / rollback, commit, abort, a rival commit that makes our commit
conflict after the blob was stored, commit with another participant failing
after the vote, undo, pack.  After every step the set of committed blob files
and their bytes are compared with the model, the main connection and an
observer read the blobs, and after every transaction end nothing of the
transaction may remain under the blob directory.
"""
import itertools
import os
import stat

import transaction

from mc import connworld, env, hclasses, seqx
from mc.battery import Exc, call

MOD = 'checks.c13_blob'
# a non-initial state: B rewritten, committed, and the rewrite undone
UNDONE = [['bwrite', 'B'], ['commit'], ['undo', 0]]
SAVED = [['bwrite', 'B'], ['savepoint']]
CREATED = [['bwrite', 'N'], ['linkN'], ['commit']]
SAVED_P = [['modp'], ['savepoint']]
SP_KINDS = ['bwrite', 'bappend', 'consume', 'linkN', 'savepoint', 'rollback',
            'commit', 'abort']
KINDS = ['bwrite', 'bappend', 'consume', 'consume-missing', 'linkN', 'modp',
         'savepoint',
         'rollback', 'commit', 'abort', 'rival', 'rivalB', 'commit-vote-fail',
         'commit-pack-inside', 'undo', 'undo-abort', 'pack']


def make_spec(cfg):
    return dict(kinds=cfg.get('kinds') or KINDS,
                max_handles=cfg.get('max_handles', 1))


class MBlob:
    __slots__ = ('revs', 'work', 'owned', 'in_root', 'c_in_root', 'dirty',
                 'new_in_txn')

    def __init__(self):
        self.revs = []          # committed [(tid, bytes)], oldest first
        self.work = None        # bytes the main connection must read
        self.owned = False
        self.in_root = False
        self.c_in_root = False
        self.dirty = False
        self.new_in_txn = False

    def copy(self):
        m = MBlob()
        for s in self.__slots__:
            v = getattr(self, s)
            setattr(m, s, list(v) if isinstance(v, list) else v)
        return m

    def committed(self):
        return self.revs[-1][1] if self.revs else None


class BlobWorld:
    def __init__(self, kind='Fb'):
        env.reset_globals()
        from mc import dbworld
        dbworld.own_hash_order()
        Blob = env.mod('ZODB.blob').Blob
        self.kind = kind
        self.dir = env.new_dir('bw')
        self.blob_dir = os.path.join(self.dir, 'blobs')
        FS = env.mod('ZODB.FileStorage.FileStorage').FileStorage
        BS = env.mod('ZODB.blob').BlobStorage
        if kind == 'Fb':
            self.storage = FS(os.path.join(self.dir, 'Data.fs'),
                              blob_dir=self.blob_dir)
        elif kind == 'BF':
            # the blob wrapper around a storage without blob support of its
            # own
            self.storage = BS(self.blob_dir,
                              FS(os.path.join(self.dir, 'Data.fs')))
        else:
            MS = env.mod('ZODB.MappingStorage').MappingStorage
            self.storage = BS(self.blob_dir, MS())
        self.db = env.mod('ZODB.DB').DB(self.storage)
        self.tm = transaction.TransactionManager()
        self.conn = self.db.open(self.tm)
        self.vcount = 0
        self.violations = []
        self.outcomes = []
        self.handles = []
        self.joined = False
        self.rivalled = False
        self.dead = False
        self.packed_upto = None
        self.txn_log = []       # committed transactions newest last:
        #                         (tid, {name: bytes or None(plain)})
        root = self.conn.root()
        self.blobs = {'B': Blob(), 'N': Blob()}
        self.model = {'B': MBlob(), 'N': MBlob()}
        with self.blobs['B'].open('w') as f:
            f.write(self.newbytes())
        self.model['B'].work = self.lastbytes
        root['B'] = self.blobs['B']
        self.p = hclasses.P()
        self.p.v = 0
        root['p'] = self.p
        self.p_committed = 0
        self.p_dirty = False
        self.root_dirty = False
        env.CLOCK.now += 1
        self.tm.commit()
        self._c_in_root_before = False
        mb = self.model['B']
        mb.owned = mb.in_root = mb.c_in_root = True
        tid = self.storage.lastTransaction()
        mb.revs.append((tid, mb.work))
        self.txn_log.append((tid, {'B': mb.work, 'root': (False, False),
                                   'p': None}))
        self.tm2 = transaction.TransactionManager()
        self.obs = self.db.open(self.tm2)
        self.tm3 = transaction.TransactionManager()
        self.c3 = self.db.open(self.tm3)
        self._oid_of = {'B': self.blobs['B']._p_oid}
        self.dead_files = {}
        # files written by BlobStorage.undo (the wrapper's own copy loop):
        # it leaves them writable, and it also copies the bytes of an undone
        # *creation* under the undo tid although that transaction holds no
        # revision of the blob.  Neither is something C13 forbids (content
        # is compared at every state; the stray copy goes at the next
        # pack), see DESIGN.md 8.
        self.wrapper_copies = set()
        self.optional_files = {}

    def newbytes(self):
        self.vcount += 1
        self.lastbytes = ('blob-data-%03d;' % self.vcount).encode()
        return self.lastbytes

    def close(self):
        try:
            self.tm.abort()
            self.tm2.abort()
            self.tm3.abort()
            self.db.close()
        except Exception:
            pass
        env.rm_dir(self.dir)

    def bad(self, clause, sig, detail):
        self.violations.append((clause, sig, detail))

    def fingerprint(self):
        out = []
        for n in sorted(self.model):
            mb = self.model[n]
            out.append((n, len(mb.revs), mb.owned, mb.in_root, mb.dirty,
                        mb.new_in_txn, mb.work == mb.committed()))
        return (tuple(out), len(self.handles), self.joined, self.p_dirty,
                self.rivalled, self.packed_upto is not None,
                len(self.txn_log))

    # -- alphabet ---------------------------------------------------------
    def enabled(self, spec):
        m = self.model
        ops = []
        for k in spec['kinds']:
            if k in ('bwrite', 'bappend', 'consume'):
                ops += [(k, n) for n in ('B', 'N')]
            elif k == 'consume-missing':
                # consumeFile() of a file that is not there: it fails and
                # leaves the blob as it was
                ops += [(k, n) for n in ('B', 'N') if m[n].work is not None
                        and (m[n].dirty or not m[n].owned)]
            elif k == 'linkN':
                if not m['N'].in_root:
                    ops.append(('linkN',))
            elif k == 'modp':
                ops.append(('modp',))
            elif k == 'savepoint':
                if len(self.handles) < spec['max_handles'] and \
                        not self.rivalled:
                    ops.append(('savepoint',))
            elif k == 'rollback':
                ops += [('rollback', j) for j in range(len(self.handles))]
            elif k in ('commit', 'abort'):
                ops.append((k,))
            elif k == 'rival':
                if self.p_dirty and not self.handles and not self.rivalled:
                    ops.append(('rival',))
            elif k == 'rivalB':
                # the rival rewrites the blob we have rewritten: our commit
                # conflicts on the blob itself, before its file is taken
                if m['B'].dirty and m['B'].owned and not self.handles \
                        and not self.rivalled:
                    ops.append(('rivalB',))
            elif k == 'commit-vote-fail':
                if self.joined:
                    ops.append((k,))
            elif k == 'commit-pack-inside':
                # a pack runs while our transaction has stored its blobs
                # and has not finished (here: from another participant's
                # vote).  A MappingStorage packs without the commit lock.
                if self.joined and self.kind == 'BM' and not self.rivalled \
                        and not self.handles:
                    ops.append((k,))
            elif k == 'undo-abort':
                if not self.joined and len(self.txn_log) >= 2 and \
                        self.kind != 'BM':
                    ops += [('undo-abort', i) for i in range(
                        min(2, len(self.txn_log) - 1))]
            elif k == 'undo':
                if self.kind == 'BM':
                    continue
                if not self.joined and len(self.txn_log) >= 2:
                    # (undoing the undo of a blob's creation would bring a
                    # dead incarnation back: outside the modelled alphabet)
                    ops += [('undo', i) for i in range(
                        min(2, len(self.txn_log) - 1))
                        if not self.txn_log[-1 - i][1].get('_uncreate')]
            elif k == 'pack':
                if not self.joined:
                    ops.append(('pack',))
        return ops

    # -- stepping ---------------------------------------------------------
    def apply(self, op, spec=None):
        if self.dead:
            return 'dead'
        try:
            out = self._apply(op)
        except Exception as e:      # noqa: B902
            self.bad('error', '%s:%s' % (op[0], type(e).__name__),
                     dict(op=op, error=repr(e)[:300]))
            self.dead = True
            out = 'error'
        self.outcomes.append(out)
        self._warm()
        return out

    def _warm(self):
        """The observer looks at everything after every step (the oracle
        runs only at the end of a replayed history): its cache holds the
        blobs as of its last look, so a missing invalidation shows."""
        try:
            self.tm2.abort()
            oroot = self.obs.root()
            for name in list(oroot.keys()):
                try:
                    self._read(oroot[name])
                except Exception:
                    pass
        except Exception:
            pass

    def _flush(self):
        mn = self.model['N']
        if mn.in_root and not mn.owned:
            mn.owned = True
            mn.new_in_txn = True

    def _fresh(self, n):
        """The application's blob object is dead (un-added, or its creation
        was undone): it takes a new one."""
        Blob = env.mod('ZODB.blob').Blob
        mb = self.model[n]
        oid = self._oid_of.pop(n, None)
        if oid is not None:
            # files of committed revisions of the old incarnation stay
            # until a pack
            fsh = self.storage.fshelper
            for tid, data in mb.revs:
                if data is not None:
                    self.dead_files[os.path.relpath(
                        fsh.getBlobFilename(oid, tid), self.blob_dir)] = data
        mb.revs = []
        self.blobs[n] = Blob()
        mb.work = None
        mb.owned = False

    def _unadded(self, n, data):
        """A blob created in this transaction is disowned by an abort or a
        rollback: the application keeps the object, which is a plain new
        blob again and holds the data it had (attached again, it is stored
        with them)."""
        mb = self.model[n]
        self._oid_of.pop(n, None)
        mb.revs = []
        mb.work = data
        mb.owned = False

    def _model_abort(self, data_kept=False):
        for n, mb in self.model.items():
            if mb.new_in_txn:
                mb.new_in_txn = False
                if data_kept:
                    self._unadded(n, mb.work)
                else:
                    # (a commit that failed had been handed the blob's file:
                    # the object the application holds is empty now, it
                    # takes a new one)
                    self._fresh(n)
            elif mb.owned:
                mb.work = mb.committed()
            # a blob that never belonged to the database keeps its data
            mb.in_root = mb.c_in_root
            mb.dirty = False
        self.p_dirty = False
        self.root_dirty = False
        self.handles = []
        self.joined = False
        self.rivalled = False

    def _apply(self, op):
        k = op[0]
        m = self.model
        root = self.conn.root()
        env.CLOCK.now += 1
        if k == 'consume-missing':
            n = op[1]
            r = call(self.blobs[n].consumeFile,
                     os.path.join(self.dir, 'no-such-file'))
            if not isinstance(r, Exc):
                self.bad('error', 'consume-missing-accepted', dict(blob=n))
            return 'consume-missing'
        if k in ('bwrite', 'bappend', 'consume'):
            n = op[1]
            b = self.blobs[n]
            mb = m[n]
            if k == 'bwrite':
                with b.open('w') as f:
                    f.write(self.newbytes())
                mb.work = self.lastbytes
            elif k == 'bappend':
                with b.open('a') as f:
                    f.write(self.newbytes())
                mb.work = (mb.work or b'') + self.lastbytes
            else:
                src = os.path.join(self.dir, 'consume-%d' % self.vcount)
                with open(src, 'wb') as f:
                    f.write(self.newbytes())
                b.consumeFile(src)
                mb.work = self.lastbytes
                if os.path.exists(src):
                    self.bad('files', 'consumed-file-left', dict(path=src))
            if mb.owned:
                mb.dirty = True
                self.joined = True
            return k
        if k == 'linkN':
            root['N'] = self.blobs['N']
            m['N'].in_root = True
            if m['N'].work is None:
                # never written: an empty blob
                m['N'].work = b''
            self.root_dirty = True
            self.joined = True
            return 'linkN'
        if k == 'modp':
            self.p.v = self.p.v + 1 if isinstance(self.p.v, int) else 1
            self.p_dirty = True
            self.joined = True
            return 'modp'
        if k == 'savepoint':
            sp = self.tm.savepoint()
            self._flush()
            snap = ({n: mb.copy() for n, mb in m.items()}, self.p_dirty,
                    self.root_dirty, self.p.v)
            self.handles.append((sp, snap))
            self.joined = True
            return 'savepoint'
        if k == 'rollback':
            sp, (snap, pd, rd, pv) = self.handles[op[1]]
            sp.rollback()
            for n in m:
                was_owned = m[n].owned
                cur = m[n].work
                m[n] = snap[n].copy()
                if not m[n].owned:
                    if was_owned:
                        self._unadded(n, cur)   # created after the savepoint
                    else:
                        m[n].work = cur
            self.p_dirty, self.root_dirty = pd, rd
            del self.handles[op[1] + 1:]
            return 'rollback'
        if k == 'rival':
            self.tm3.abort()
            self.c3.root()['p'].v = -self.vcount - 1
            self.tm3.commit()
            self.p_committed = self.c3.root()['p'].v
            self.txn_log.append((self.storage.lastTransaction(), {'p': None}))
            self.rivalled = True
            return 'rival'
        if k == 'rivalB':
            self.tm3.abort()
            data = b'rival-%d;' % self.vcount
            with self.c3.root()['B'].open('w') as f:
                f.write(data)
            self.tm3.commit()
            tid = self.storage.lastTransaction()
            m['B'].revs.append((tid, data))
            self.txn_log.append((tid, {'B': data}))
            self.rivalled = 'B'
            return 'rivalB'
        if k == 'abort':
            self.tm.abort()
            self._model_abort(data_kept=True)
            return 'abort'
        if k in ('commit', 'commit-vote-fail', 'commit-pack-inside'):
            return self._commit(k)
        if k == 'undo':
            return self._undo(op[1])
        if k == 'undo-abort':
            # start undoing, then abort: nothing may change
            UE = env.mod('ZODB.POSException').UndoError
            tid, wrote = self.txn_log[-1 - op[1]]
            from base64 import encodebytes
            try:
                self.db.undo(encodebytes(tid).rstrip(), self.tm.get())
                # the undo is performed by the data manager at commit time:
                # run the first phase, then abort
                self.tm.get().join(connworld.FailingRM('vote'))
                try:
                    self.tm.commit()
                except (RuntimeError, UE):
                    pass
            finally:
                self.tm.abort()
            return 'undo-abort'
        if k == 'pack':
            self.db.pack(env.CLOCK.now)
            self.packed_upto = self.storage.lastTransaction()
            self.dead_files.clear()
            self.optional_files.clear()
            for mb in m.values():
                if mb.revs:
                    if mb.c_in_root:
                        del mb.revs[:-1]
                    else:
                        del mb.revs[:]      # garbage
                        mb.owned = False
                        mb.work = None
            return 'pack'
        raise ValueError(op)

    def _commit(self, how):
        m = self.model
        CE = env.mod('ZODB.POSException').ConflictError
        expect_conflict = (self.rivalled is True and self.p_dirty) or (
            self.rivalled == 'B' and m['B'].dirty)
        if how == 'commit-vote-fail':
            self.tm.get().join(connworld.FailingRM('vote'))
        elif how == 'commit-pack-inside':
            world_ = self

            class PackingRM(connworld.FailingRM):
                def tpc_vote(self, txn):
                    world_.db.pack(env.CLOCK.now)
            self.tm.get().join(PackingRM('never'))
        try:
            self.tm.commit()
            outcome = 'ok'
        except CE:
            outcome = 'conflict'
        except RuntimeError:
            outcome = 'failed'
        if outcome != 'ok':
            self.tm.abort()
        exp = 'conflict' if expect_conflict else (
            'failed' if how == 'commit-vote-fail' else 'ok')
        if outcome != exp:
            self.bad('commit', '%s:%s-instead-of-%s' % (how, outcome, exp),
                     dict(expected=exp, got=outcome))
            self.dead = True
            return 'error'
        if outcome != 'ok':
            self._flush()       # the failed commit had adopted N
            self._model_abort()
            return 'commit-' + outcome
        self._flush()
        tid = self.storage.lastTransaction()
        if how == 'commit-pack-inside':
            # what the pack (which saw the state before this commit) did
            self.packed_upto = max(
                [t for t, _ in self.txn_log] or [tid])
            self.dead_files.clear()
            self.optional_files.clear()
            for n2, mb2 in m.items():
                if mb2.revs:
                    if mb2.c_in_root:
                        del mb2.revs[:-1]
                    else:
                        del mb2.revs[:]
        self._c_in_root_before = m['N'].c_in_root
        wrote = {}
        for n, mb in m.items():
            if mb.owned and (mb.dirty or mb.new_in_txn):
                mb.revs.append((tid, mb.work))
                wrote[n] = mb.work
            mb.dirty = False
            mb.new_in_txn = False
        for n, mb in m.items():
            mb.c_in_root = mb.in_root
            if mb.owned and self.blobs[n]._p_oid:
                self._oid_of[n] = self.blobs[n]._p_oid
        if self.p_dirty:
            wrote['p'] = None
            self.p_committed = self.p.v
        if self.root_dirty:
            wrote['root'] = (self._c_in_root_before, m['N'].c_in_root)
        if wrote:
            self.txn_log.append((tid, wrote))
        self.p_dirty = self.root_dirty = False
        self.handles = []
        self.joined = False
        self.rivalled = False
        return 'commit'

    def _undo(self, i):
        """Undo the i-th newest transaction through the DB."""
        m = self.model
        UE = env.mod('ZODB.POSException').UndoError
        tid, wrote = self.txn_log[-1 - i]
        # refused if any object it wrote was written again later (blobs and
        # the plain objects have no conflict resolution), or packed
        later = self.txn_log[len(self.txn_log) - i:]
        refused = any(set(w) & set(wrote) & {'p', 'root'} for _, w in later)
        # a later transaction that left other bytes in a blob this one
        # wrote is a conflicting change (nothing can merge blobs); the same
        # bytes are "equal in effect"
        for _, w in later:
            for n in w:
                if n in m and n in wrote and w[n] != wrote[n]:
                    refused = True
        if self.packed_upto is not None and tid <= self.packed_upto:
            refused = True
        info = self.db.undoInfo(0, 20)
        from base64 import encodebytes
        ids = [d['id'] for d in info if d['id'] == encodebytes(tid).rstrip()]
        if not ids:
            if not refused:
                self.bad('undo', 'not-listed', dict(tid=tid))
            return 'undo-unlisted'
        try:
            self.db.undo(ids[0], self.tm.get())
            self.tm.commit()
            outcome = 'ok'
        except UE:
            self.tm.abort()
            outcome = 'refused'
        if (outcome == 'refused') != refused:
            self.bad('undo', '%s-instead-of-%s' % (
                outcome, 'refused' if refused else 'ok'), dict(tid=tid))
            self.dead = True
            return 'error'
        if outcome == 'refused':
            return 'undo-refused'
        utid = self.storage.lastTransaction()
        w2 = {}
        root = self.conn.root()
        for n in wrote:
            if n in m:
                mb = m[n]
                prev = [r for r in mb.revs if r[0] < tid]
                data = prev[-1][1] if prev else None
                if self.kind == 'BF':
                    o = self.blobs[n]._p_oid if mb.owned \
                        else self._oid_of.get(n)
                    if o is not None:
                        rel = os.path.relpath(
                            self.storage.fshelper.getBlobFilename(o, utid),
                            self.blob_dir)
                        self.wrapper_copies.add(rel)
                        if data is None:
                            was = [r for r in mb.revs if r[0] == tid]
                            if was:
                                self.optional_files[rel] = was[-1][1]
                mb.revs.append((utid, data))
                w2[n] = data
                if data is None:
                    w2['_uncreate'] = True
            elif n == 'root':
                before, after = wrote['root']
                m['N'].in_root = m['N'].c_in_root = before
                w2['root'] = (after, before)
            else:
                w2[n] = None
        # the main connection sees the result at its next boundary (the
        # undo committed through its own transaction manager): fetch the
        # blobs again
        for n, mb in m.items():
            cm = mb.committed()
            if mb.c_in_root and cm is not None:
                self.blobs[n] = root[n]
                mb.owned = True
                mb.work = cm
            elif mb.revs and cm is None:
                self._fresh(n)      # creation undone
            elif mb.owned:
                mb.work = cm
        self.txn_log.append((utid, w2))
        return 'undo'

    # -- oracle -----------------------------------------------------------
    def blob_files(self):
        out = {}
        other = []
        for d, dirs, files in os.walk(self.blob_dir):
            for f in files:
                p = os.path.join(d, f)
                rel = os.path.relpath(p, self.blob_dir)
                if f.endswith('.blob'):
                    out[rel] = p
                elif rel not in ('.layout', '.removed'):
                    other.append(rel)
        return out, other

    def check(self):
        n = 0
        m = self.model
        fsh = self.storage.fshelper
        files, other = self.blob_files()
        # expected committed files
        want = {}
        for name, mb in m.items():
            oid = self.blobs[name]._p_oid if mb.owned else None
            for tid, data in mb.revs:
                if data is None:
                    continue
                o = oid or self._oid_of.get(name)
                if o is None:
                    continue
                want[os.path.relpath(fsh.getBlobFilename(o, tid),
                                     self.blob_dir)] = data
        want.update(self.dead_files)
        n += 1
        in_txn = self.joined
        for rel, data in self.optional_files.items():
            if rel in files:
                want[rel] = data
        extra = sorted(set(files) - set(want))
        missing = sorted(set(want) - set(files))
        if missing:
            self.bad('files', 'committed-file-missing', dict(missing=missing))
        if extra and not in_txn:
            self.bad('files', 'file-without-revision', dict(extra=extra))
        for rel, data in want.items():
            if rel in files:
                n += 1
                with open(files[rel], 'rb') as f:
                    got = f.read()
                if got != data:
                    self.bad('bytes', 'committed-file-content', dict(
                        file=rel, expected=data, got=got[:60]))
                mode = os.stat(files[rel]).st_mode
                if mode & (stat.S_IWUSR | stat.S_IWGRP | stat.S_IWOTH) \
                        and rel not in self.wrapper_copies:
                    self.bad('immutable', 'committed-file-writable',
                             dict(file=rel, mode=oct(mode)))
        if not in_txn:
            # nothing of a finished transaction anywhere else
            left = [x for x in other if not x.startswith('tmp' + os.sep)
                    or True]
            # working copies of blobs that belong to no database are the
            # application's own business (a never-added blob that was
            # written to has its data in tmp/)
            own = set()
            for name, mb in m.items():
                b = self.blobs[name]
                if not mb.owned and b._p_blob_uncommitted:
                    own.add(os.path.relpath(b._p_blob_uncommitted,
                                            self.blob_dir))
            left = [x for x in left if x not in own]
            n += 1
            if left:
                self.bad('files', 'leftover:%s' % (
                    'tmp' if left[0].startswith('tmp') else 'other'),
                    dict(left=left[:5]))
        # the main connection reads its working bytes
        for name, mb in m.items():
            if mb.owned and mb.work is not None:
                n += 1
                r = call(self._read, self.blobs[name])
                if r != mb.work:
                    self.bad('bytes', 'main-connection-read', dict(
                        blob=name, expected=mb.work, got=repr(r)[:80]))
        # the observer reads committed bytes only
        self.tm2.abort()
        oroot = self.obs.root()
        for name, mb in m.items():
            n += 1
            present = name in oroot
            if present != mb.c_in_root:
                self.bad('isolated', 'observer-root', dict(
                    blob=name, expected=mb.c_in_root, got=present))
                continue
            if present:
                r = call(self._read, oroot[name])
                cm = mb.committed()
                if cm is None:
                    if not isinstance(r, Exc):
                        self.bad('bytes', 'observer-reads-undone-blob',
                                 dict(blob=name, got=repr(r)[:60]))
                elif r != cm:
                    self.bad('bytes', 'observer-read', dict(
                        blob=name, expected=cm, got=repr(r)[:80]))
        return n

    _oid_of = None

    @staticmethod
    def _read(blob):
        with blob.open('r') as f:
            return f.read()


def build(cfg, hist, spec):
    w = BlobWorld(cfg['kind'])
    for op in cfg.get('start', []):
        w.apply(tuple(op))
    for op in hist:
        w.apply(tuple(op))
    return w


def node(w, hist, cfg, res):
    if w.dead:
        return 0, False, []
    nv = len(w.violations)
    try:
        n = w.check()
    except Exception as e:      # noqa: B902
        w.bad('error', 'check:%s' % type(e).__name__,
              dict(error=repr(e)[:300]))
        n = 0
    if hist:
        res.outcome(w.outcomes[-1])
    viol = w.violations[nv:]
    w.violations = w.violations[:nv]
    res.clause('C13.files', n)
    return n, len(hist) >= 2, viol


def undo_chain_task(kind, shape, length):
    """Chains of undos, each undoing the newest transaction (undo, redo,
    undo, ...), of a blob's creation ('create') or of a rewrite
    ('rewrite'): after every link the blob is there with the right bytes or
    gone, seen from a fresh connection, and every blob record has its file.
    """
    import transaction
    from base64 import encodebytes
    from mc import schedx
    env.install()
    env.reset_globals()
    res = schedx._new_res()
    d = env.new_dir('uc')
    FS = env.mod('ZODB.FileStorage.FileStorage').FileStorage
    BS = env.mod('ZODB.blob').BlobStorage
    Blob = env.mod('ZODB.blob').Blob
    if kind == 'Fb':
        st = FS(os.path.join(d, 'Data.fs'), blob_dir=os.path.join(d, 'bl'))
    else:
        st = BS(os.path.join(d, 'bl'), FS(os.path.join(d, 'Data.fs')))
    db = env.mod('ZODB.DB').DB(st)
    wit = dict(undo_chain=dict(kind=kind, shape=shape, length=length))
    seen = set()

    def bad(c, sg, det):
        fs = 'C13.%s:undo-chain:%s:%s:%s' % (c, kind, shape, sg)
        if fs not in seen:
            seen.add(fs)
            res['violations'].append(('C13.' + c, fs, wit, det, 1))
    try:
        tm = transaction.TransactionManager()
        c = db.open(tm)
        b = Blob()
        with b.open('w') as f:
            f.write(b'one')
        c.root()['N'] = b
        env.CLOCK.now += 1
        tm.commit()
        states = [None, b'one']      # before / after the newest transaction
        if shape == 'rewrite':
            with b.open('w') as f:
                f.write(b'two')
            env.CLOCK.now += 1
            tm.commit()
            states = [b'one', b'two']
        c.close()
        cur = 1
        for i in range(length):
            env.CLOCK.now += 1
            tmu = transaction.TransactionManager()
            r = call(lambda: (db.undo(encodebytes(
                db.storage.lastTransaction()).rstrip(), tmu.get()),
                tmu.commit()))
            res['cov']['transitions'] += 1
            res['cov']['evaluations'] += 1
            if isinstance(r, Exc):
                tmu.abort()
                bad('undo', 'link-%d:%s' % (i + 1, r.name),
                    dict(got=repr(r)[:200]))
                break
            cur = 1 - cur
            want = states[cur]
            tmf = transaction.TransactionManager()
            cf = db.open(tmf)
            try:
                root = cf.root()
                if want is None:
                    if 'N' in root:
                        bad('undo', 'link-%d:still-there' % (i + 1), {})
                else:
                    got = call(lambda: root['N'].open('r').read())
                    if got != want:
                        bad('bytes', 'link-%d:read' % (i + 1),
                            dict(expected=want, got=repr(got)[:100]))
            finally:
                tmf.abort()
                cf.close()
        res['cov']['states'] += 1
        res['cov']['traces_validated_against_impl'] += 1
        res['cov']['distinct_nontrivial'] += 1
        res['outcomes']['undo-chain'] = 1
    except Exception as e:      # noqa: B902
        bad('error', type(e).__name__, dict(error=repr(e)[:200]))
    finally:
        try:
            db.close()
        except Exception:
            pass
        env.rm_dir(d)
    return res


def _open_blob_db(kind, d):
    FS = env.mod('ZODB.FileStorage.FileStorage').FileStorage
    MS = env.mod('ZODB.MappingStorage').MappingStorage
    BS = env.mod('ZODB.blob').BlobStorage
    if kind == 'Fb':
        st = FS(os.path.join(d, 'Data.fs'), blob_dir=os.path.join(d, 'bl'))
    elif kind == 'BF':
        st = BS(os.path.join(d, 'bl'), FS(os.path.join(d, 'Data.fs')))
    else:
        st = BS(os.path.join(d, 'bl'), MS('m'))
    return env.mod('ZODB.DB').DB(st)


def _read_fresh(db, name):
    import transaction
    tmf = transaction.TransactionManager()
    cf = db.open(tmf)
    try:
        root = cf.root()
        if name not in root:
            return None
        return call(lambda: root[name].open('r').read())
    finally:
        tmf.abort()
        cf.close()


def multi_undo_task(kind, nrew, undone, pack):
    """One undoMultiple of several transactions that rewrote the same blob
    (the undoing transaction then holds several records for it), followed
    by a pack: the blob reads back as it was before the oldest undone
    rewrite, before and after the pack and after re-opening nothing else
    is compared.  `undone`: indices of the rewrites undone (newest first);
    `pack`: None, 'now', 'before-undo'."""
    import transaction
    from base64 import encodebytes
    from mc import schedx
    env.install()
    env.reset_globals()
    res = schedx._new_res()
    d = env.new_dir('mu')
    Blob = env.mod('ZODB.blob').Blob
    UndoError = env.mod('ZODB.POSException').UndoError
    db = _open_blob_db(kind, d)
    wit = dict(multi_undo=dict(kind=kind, nrew=nrew, undone=list(undone),
                               pack=pack))
    seen = set()

    def bad(c, sg, det):
        fs = 'C13.%s:multi-undo:%s:%s' % (c, kind, sg)
        if fs not in seen:
            seen.add(fs)
            res['violations'].append(('C13.' + c, fs, wit, det, 1))
    try:
        tm = transaction.TransactionManager()
        c = db.open(tm)
        b = Blob()
        with b.open('w') as f:
            f.write(b'v0')
        c.root()['N'] = b
        env.CLOCK.now += 1
        tm.commit()
        tids = []
        for i in range(nrew):
            with b.open('w') as f:
                f.write(b'v%d' % (i + 1))
            env.CLOCK.now += 1
            tm.commit()
            tids.append(db.storage.lastTransaction())
        c.close()
        env.CLOCK.now += 1
        t_before_undo = env.CLOCK.now
        env.CLOCK.now += 1
        tmu = transaction.TransactionManager()
        ids = [encodebytes(tids[i]).rstrip() for i in undone]
        r = call(lambda: (db.undoMultiple(ids, tmu.get()), tmu.commit()))
        res['cov']['transitions'] += 1
        contiguous_top = sorted(undone) == list(
            range(nrew - len(undone), nrew))
        if isinstance(r, Exc):
            tmu.abort()
            if contiguous_top or r.name != 'UndoError':
                bad('undo', 'refused:%s' % r.name, dict(got=repr(r)[:200]))
            want = b'v%d' % nrew
        else:
            if not contiguous_top:
                # undoing a rewrite below one that stays: blob data cannot
                # be merged, the undo has to be refused
                bad('undo', 'accepted-below-later-change',
                    dict(undone=list(undone)))
            want = b'v%d' % min(undone)
        got = _read_fresh(db, 'N')
        res['cov']['evaluations'] += 1
        if got != want:
            bad('bytes', 'after-undo', dict(expected=want,
                                            got=repr(got)[:100]))
        if pack:
            env.CLOCK.now += 1
            r = call(lambda: db.pack(
                env.CLOCK.now if pack == 'now' else t_before_undo))
            res['cov']['transitions'] += 1
            if isinstance(r, Exc):
                bad('pack', 'failed:%s' % r.name, dict(got=repr(r)[:200]))
            got = _read_fresh(db, 'N')
            res['cov']['evaluations'] += 1
            if got != want:
                bad('bytes', 'after-pack:%s' % pack,
                    dict(expected=want, got=repr(got)[:100]))
        res['cov']['states'] += 1
        res['cov']['traces_validated_against_impl'] += 1
        res['cov']['distinct_nontrivial'] += 1
        res['outcomes']['multi-undo'] = 1
    except Exception as e:      # noqa: B902
        bad('error', type(e).__name__, dict(error=repr(e)[:200]))
    finally:
        try:
            db.close()
        except Exception:
            pass
        env.rm_dir(d)
    return res


def unref_task(kind, what, nsp, minimize, extra):
    """A blob written in a transaction that takes savepoints while the
    application keeps no reference to it: the blob sits below a committed
    container, and the connection's cache is emptied (cacheMinimize + a
    garbage collection, what cache pressure does on its own) before the
    commit.  The committed blob must read back with the bytes written.
    `what`: 'rewrite' (an existing blob) / 'create' (a new one below the
    committed container); `nsp`: savepoints taken after the write;
    `minimize`: where the cache is emptied ('after-sp', 'never');
    `extra`: also modify a plain object after the savepoint."""
    import gc
    import transaction
    from mc import schedx
    env.install()
    env.reset_globals()
    res = schedx._new_res()
    d = env.new_dir('ur')
    Blob = env.mod('ZODB.blob').Blob
    from mc import hclasses
    db = _open_blob_db(kind, d)
    wit = dict(unref=dict(kind=kind, what=what, nsp=nsp, minimize=minimize,
                          extra=extra))
    seen = set()

    def bad(c, sg, det):
        fs = 'C13.%s:unreferenced:%s:%s:%s' % (c, kind, what, sg)
        if fs not in seen:
            seen.add(fs)
            res['violations'].append(('C13.' + c, fs, wit, det, 1))
    try:
        tm = transaction.TransactionManager()
        c = db.open(tm)
        box = c.root()['box'] = hclasses.P(0)
        c.root()['p'] = hclasses.P(0)
        b = Blob()
        with b.open('w') as f:
            f.write(b'old')
        box.B = b
        env.CLOCK.now += 1
        tm.commit()
        del b, box, f
        c.cacheMinimize()
        gc.collect()
        # the transaction under test
        if what == 'rewrite':
            with c.root()['box'].B.open('w') as f:
                f.write(b'new')
            del f               # (the open file refers to its blob)
            name = 'B'
        else:
            nb = Blob()
            with nb.open('w') as f:
                f.write(b'new')
            c.root()['box'].N = nb
            del nb, f
            name = 'N'
        for i in range(nsp):
            tm.savepoint()
            if minimize == 'after-sp':
                c.cacheMinimize()
                gc.collect()
            if extra:
                c.root()['p'].v = i + 1
        env.CLOCK.now += 1
        r = call(tm.commit)
        res['cov']['transitions'] += 2 + nsp
        if isinstance(r, Exc):
            tm.abort()
            bad('commit', 'failed:%s' % r.name, dict(got=repr(r)[:200]))
        else:
            import transaction as _t
            tmf = _t.TransactionManager()
            cf = db.open(tmf)
            got = call(lambda: getattr(cf.root()['box'], name).open(
                'r').read())
            tmf.abort()
            cf.close()
            res['cov']['evaluations'] += 1
            if got != b'new':
                bad('bytes', 'committed-blob-unreadable',
                    dict(expected=b'new', got=repr(got)[:120]))
        c.close()
        res['cov']['states'] += 1
        res['cov']['traces_validated_against_impl'] += 1
        res['cov']['distinct_nontrivial'] += 1
        res['outcomes']['unreferenced'] = 1
    except Exception as e:      # noqa: B902
        bad('error', type(e).__name__, dict(error=repr(e)[:200]))
    finally:
        try:
            db.close()
        except Exception:
            pass
        env.rm_dir(d)
    return res


EQ_CASES = (('empty', 'x'), ('empty', 'empty'), ('64k', '64k+x'),
            ('64k', '64k'), ('ab', 'abc'), ('abc', 'ab'), ('ab', 'ab'))


def _eq_bytes(name):
    return {'empty': b'', 'x': b'x', '64k': b'a' * 65536,
            '64k+x': b'a' * 65536 + b'x', 'ab': b'ab', 'abc': b'abc'}[name]


def equal_effect_task(kind, a, b):
    """T1 leaves the blob with bytes A, T2 with bytes B; undoing T1 goes
    through iff B is equal in effect to A (same bytes) - then the blob is
    as before T1 - and is refused otherwise, changing nothing.  A and B
    include the empty blob and whole multiples of the comparison's chunk
    size, one a prefix of the other."""
    import transaction
    from base64 import encodebytes
    from mc import schedx
    env.install()
    env.reset_globals()
    res = schedx._new_res()
    d = env.new_dir('eq')
    Blob = env.mod('ZODB.blob').Blob
    db = _open_blob_db(kind, d)
    wit = dict(equal_effect=dict(kind=kind, a=a, b=b))
    seen = set()

    def bad(c, sg, det):
        fs = 'C13.%s:equal-effect:%s:%s' % (c, kind, sg)
        if fs not in seen:
            seen.add(fs)
            res['violations'].append(('C13.' + c, fs, wit, det, 1))
    try:
        tm = transaction.TransactionManager()
        c = db.open(tm)
        blob = Blob()
        with blob.open('w') as f:
            f.write(b'v0')
        c.root()['N'] = blob
        env.CLOCK.now += 1
        tm.commit()
        tids = []
        for data in (_eq_bytes(a), _eq_bytes(b)):
            with blob.open('w') as f:
                f.write(data)
            del f
            env.CLOCK.now += 1
            tm.commit()
            tids.append(db.storage.lastTransaction())
        c.close()
        env.CLOCK.now += 1
        tmu = transaction.TransactionManager()
        r = call(lambda: (db.undo(encodebytes(tids[0]).rstrip(), tmu.get()),
                          tmu.commit()))
        res['cov']['transitions'] += 1
        same = _eq_bytes(a) == _eq_bytes(b)
        if isinstance(r, Exc):
            tmu.abort()
            if same or r.name != 'UndoError':
                bad('undo', '%s-%s:refused:%s' % (a, b, r.name),
                    dict(got=repr(r)[:200]))
            want = _eq_bytes(b)
        else:
            if not same:
                bad('undo', '%s-%s:accepted-over-later-change' % (a, b), {})
            want = b'v0'
        got = _read_fresh(db, 'N')
        res['cov']['evaluations'] += 1
        if got != want and (same or isinstance(r, Exc)):
            bad('bytes', '%s-%s:after-undo' % (a, b),
                dict(expected=repr(want)[:40], got=repr(got)[:40]))
        res['cov']['states'] += 1
        res['cov']['traces_validated_against_impl'] += 1
        res['cov']['distinct_nontrivial'] += 1
        res['outcomes']['equal-effect'] = 1
    except Exception as e:      # noqa: B902
        bad('error', type(e).__name__, dict(error=repr(e)[:200]))
    finally:
        try:
            db.close()
        except Exception:
            pass
        env.rm_dir(d)
    return res


def extra_tasks(tier):
    tasks = []
    for kind in ('Fb', 'BF'):
        for a, b in EQ_CASES:
            tasks.append((MOD, 'equal_effect_task', (kind, a, b)))
    maxrew = 3 if tier == 'quick' else 4
    for kind in ('Fb', 'BF'):
        for nrew in range(2, maxrew + 1):
            for k in range(2, nrew + 1):
                for undone in itertools.combinations(
                        range(nrew - 1, -1, -1), k):
                    for pack in (None, 'now', 'before-undo'):
                        tasks.append((MOD, 'multi_undo_task',
                                      (kind, nrew, undone, pack)))
    for kind in ('Fb', 'BF', 'BM'):
        for what in ('rewrite', 'create'):
            for nsp in (1, 2):
                for minimize in ('after-sp', 'never'):
                    for extra in (False, True):
                        tasks.append((MOD, 'unref_task',
                                      (kind, what, nsp, minimize, extra)))
    return tasks


def run(rep, tier, seed, workers):
    depth = 4 if tier == 'quick' else 5
    rep.rule = (
        'all sequences up to the depth over {rewrite / append / consumeFile '
        'on an existing blob B and a new blob N, link N, modify a plain '
        'object p, savepoint, rollback, commit, abort, rival commit to p '
        '(our commit then conflicts after B was stored), commit with another '
        'participant failing after the vote, DB.undo of the 1st / 2nd newest '
        'transaction, pack to now} on FileStorage+blob_dir, from the initial '
        'state and from a state with an undone rewrite; the blob and '
        'savepoint operations with two live savepoints from a state where a '
        'savepoint holds the rewritten blob / only the plain object; the '
        'BlobStorage wrapper over FileStorage and MappingStorage one step '
        'shallower (incl. an undo that is started and aborted); chains of '
        'undo / redo of a blob\'s creation and of a rewrite on both; one '
        'undoMultiple of every set of 2+ rewrites of a blob followed by a '
        'pack; a blob below a committed container written with 1-2 '
        'savepoints while nothing references it and the cache is emptied; '
        'after '
        'every '
        'step: '
        'the set, bytes and read-only mode of committed .blob files, '
        'leftovers anywhere under the blob directory once no transaction is '
        'in progress, reads through the main and an observer connection; '
        'non-trivial = sequence of at least two steps')
    states = 0
    plan = [dict(prop='C13', kind='Fb', d=depth),
            dict(prop='C13', kind='Fb', d=depth - 1, start=UNDONE),
            dict(prop='C13', kind='BF', d=depth - 1),
            # undo / redo chains of a blob's creation on the wrapper
            dict(prop='C13', kind='BF', d=depth - 1, start=CREATED,
                 kinds=['undo', 'bwrite', 'commit', 'pack']),
            dict(prop='C13', kind='BM', d=depth - 1),
            # nested savepoints: two live handles, from a state where the
            # blob is already held by a savepoint
            dict(prop='C13', kind='Fb', d=depth, start=SAVED,
                 max_handles=2, kinds=SP_KINDS),
            # ... and from one where the savepoint does not hold the blob
            dict(prop='C13', kind='Fb', d=depth, start=SAVED_P,
                 max_handles=2, kinds=SP_KINDS)]
    for cfg in plan:
        d = cfg.pop('d')
        fps = seqx.explore(rep, MOD, cfg, d, workers, seed, split=2)
        states += len(fps)
        if cfg.get('start') == CREATED:
            rep.bounds['BF depth after the creation of a blob'] = d
            continue
        rep.bounds['%s depth%s' % (cfg['kind'], (
            ' after %s+savepoint, 2 handles' % (
                'rewrite' if cfg['start'] == SAVED else 'modify p')
            if cfg.get('max_handles')
            else ' after rewrite+commit+undo') if cfg.get('start')
            else '')] = d
    from mc import par
    length = 4 if tier == 'quick' else 6
    before = rep.cov.get('states', 0)
    par.run_tasks([(MOD, 'undo_chain_task', (k, sh, length))
                   for k in ('Fb', 'BF') for sh in ('create', 'rewrite')],
                  workers, rep, seed)
    rep.bounds['undo / redo chain length'] = length
    xt = extra_tasks(tier)
    par.run_tasks(xt, workers, rep, seed)
    rep.bounds['undoMultiple+pack and unreferenced-blob scenarios'] = len(xt)
    rep.cov['states'] = max(states, 1) + rep.cov.get('states', 0) - before
    rep.assumptions = [
        'a blob that belongs to no database (never added, or un-added) may '
        'keep its own working file; its content is not compared']


def replay(w):
    if 'undo_chain' in w['witness']:
        u = w['witness']['undo_chain']
        r = undo_chain_task(u['kind'], u['shape'], u['length'])
        viol = [(v[0].split('.', 1)[1], v[1].split(':', 1)[1], v[3])
                for v in r['violations']]
    elif 'equal_effect' in w['witness']:
        u = w['witness']['equal_effect']
        r = equal_effect_task(u['kind'], u['a'], u['b'])
        viol = [(v[0].split('.', 1)[1], v[1].split(':', 1)[1], v[3])
                for v in r['violations']]
    elif 'multi_undo' in w['witness'] or 'unref' in w['witness']:
        if 'unref' in w['witness']:
            u = w['witness']['unref']
            r = unref_task(u['kind'], u['what'], u['nsp'], u['minimize'],
                           u['extra'])
        else:
            u = w['witness']['multi_undo']
            r = multi_undo_task(u['kind'], u['nrew'], tuple(u['undone']),
                                u['pack'])
        viol = [(v[0].split('.', 1)[1], v[1].split(':', 1)[1], v[3])
                for v in r['violations']]
    else:
        viol = seqx.replay_history(MOD, w['witness'])
    for v in viol:
        print(v)
    sigs = {'C13.%s:%s' % (c, s) for c, s, d in viol}
    return w['signature'] not in sigs
