"""C09: index and side files are only caches; a read-only open changes nothing.

For every history (commits, deletes, undo, aborts, empty transactions, pack,
reopen) on a real FileStorage over the recording file layer, every `.index`
version ever written is kept.  The final data file and every crash image of
the last step (op boundaries) are opened with no index, with each kept index
version, with every byte-prefix truncation of each kept version (final image)
and with leftover .tmp/.lock/.pack/.old/.index_tmp files; every open must
answer the battery exactly like the index-less open of the same data file.
Read-only opens of every image must modify nothing, refuse every write and
show the same state.
"""
import os

from mc import battery, env, iolog, seqx, world
from mc.battery import Exc, call, p64
from mc.refmodel import Z64

MOD = 'checks.c09_index'
KINDS = ['new', 'new2', 'mod', 'mod2', 'empty', 'del', 'undo', 'ab2', 'pack',
         'reopen']
JUNK = b'junk left behind by an earlier process\n'


def make_spec(cfg):
    return world.Spec(cfg.get('kinds') or KINDS, oids=(1, 2), undo_k=1)


def build(cfg, hist, spec):
    env.reset_globals()
    w = world.World('F', record=True)
    w.snap0 = iolog.snapshot(w.dir)
    w.k0 = 0
    for i, op in enumerate(hist):
        if i == len(hist) - 1:
            w.k0 = len(iolog.LOG.ops)
        w.apply(tuple(op), spec)
    w.ops = list(iolog.LOG.ops)
    return w


def FS():
    return env.mod('ZODB.FileStorage.FileStorage').FileStorage


def open_image(data, index, extra=None, read_only=False):
    """Materialise (Data.fs, optional .index, extra files) and open it.
    Returns (dir, storage-or-Exc)."""
    d = env.new_dir('ix')
    p = os.path.join(d, 'Data.fs')
    with open(p, 'wb') as f:
        f.write(data)
    if index is not None:
        with open(p + '.index', 'wb') as f:
            f.write(index)
    for name, content in (extra or {}).items():
        with open(p + name, 'wb') as f:
            f.write(content)
    s = call(FS(), p, read_only=read_only)
    return d, s


def listing(d):
    out = {}
    for n in sorted(os.listdir(d)):
        with open(os.path.join(d, n), 'rb') as f:
            out[n] = f.read()
    return out


def observe(s, oids, tids):
    return battery.observe(s, oids, tids, 'F', iter_level=0)


def first_diff(a, b):
    for k in a:
        if a[k] != b.get(k):
            return k, a[k], b.get(k)
    return None


def node(w, hist, cfg, res):
    viol = []
    n = 0
    if not hist:
        return 0, False, viol
    ops = w.ops
    oids = [p64(o) for o in (1, 2)]
    tids = w.model.tids()
    data_rel = 'Data.fs'
    idx_rel = 'Data.fs.index'
    # replay the op log: collect index versions and data images
    disk = iolog.Disk(w.dir, w.snap0)
    versions = []
    images = []          # (label, data bytes, index bytes at that moment)

    def add_version():
        v = disk.files.get(idx_rel)
        if v is not None and bytes(v) not in versions:
            versions.append(bytes(v))

    add_version()
    for k, op in enumerate(ops):
        if k >= w.k0 and iolog.is_mutation(op):
            d = disk.files.get(data_rel)
            if d is not None:
                img = (bytes(d), bytes(disk.files[idx_rel])
                       if disk.files.get(idx_rel) is not None else None)
                if not images or images[-1][1:3] != img:
                    # only index versions that existed at this moment
                    images.append(('before-op-%d' % (k - w.k0),) + img
                                  + (len(versions),))
        disk.apply(op)
        if op[0] == 'rename' and op[2].endswith('.index'):
            add_version()
    d = disk.files.get(data_rel)
    final = (bytes(d), bytes(disk.files[idx_rel])
             if disk.files.get(idx_rel) is not None else None)
    if not images or images[-1][1:3] != final:
        images.append(('final',) + final + (len(versions),))
    else:
        images[-1] = ('final',) + final + (len(versions),)
    # the index that a close after each earlier step would have saved
    # ("saved at any earlier moment of the same database"): replay the
    # prefix, close, read the index file
    spec = make_spec(cfg)
    closed_versions = []
    for i in range(1, len(hist) + 1):
        env.reset_globals()
        wi = world.World('F')
        try:
            for op in hist[:i]:
                wi.apply(tuple(op), spec)
            wi.storage.close()
            wi.storage = None
            with open(wi.path + '.index', 'rb') as f:
                closed_versions.append(f.read())
        finally:
            wi.close()
    early = [v for v in closed_versions[:-1] if v not in versions]
    # versions saved before a pack step of this history ("even before a
    # pack"): tagged, so that findings about them have their own signature
    prepack = set()
    for i, v in enumerate(closed_versions):
        if any(op[0] == 'pack' for op in hist[i + 1:]):
            prepack.add(v)
    # valid for every image of the last step
    nlog = len(versions)
    versions = early + versions
    images = [im[:3] + (im[3] + len(early),) for im in images]
    if closed_versions[-1] not in versions:
        versions.append(closed_versions[-1])     # final image only
        lab, dat, idx, nv = images[-1]
        images[-1] = (lab, dat, idx, len(versions))
    res.outcome('index-versions-%d' % min(len(versions), 4))

    sigs = set()

    def bad(clause, sig, detail):
        if (clause, sig) not in sigs:
            sigs.add((clause, sig))
            viol.append((clause, sig, detail))

    all_versions = versions
    for label, data, cur_index, nver in images:
        versions = all_versions[:nver]
        kind = 'final' if label == 'final' else 'crash'
        # reference: index-less read-write open
        dref, ref = open_image(data, None)
        if isinstance(ref, Exc):
            bad('same', '%s:reference-open:%s' % (kind, ref.name),
                dict(image=label, got=repr(ref)))
            env.rm_dir(dref)
            continue
        ref_obs = observe(ref, oids, tids)
        ref.close()
        env.rm_dir(dref)
        cands = [('current', cur_index)] if cur_index is not None else []
        cands += [('version%d' % i, v) for i, v in enumerate(versions)
                  if v != cur_index]
        if kind == 'final':
            for i, v in enumerate(versions):
                cands += [('version%d[:%d]' % (i, j), v[:j])
                          for j in range(len(v))]
        extras = [None]
        for cname, idx in cands:
            for extra in extras:
                n += 1
                dd, s = open_image(data, idx, extra)
                try:
                    tag = cname.split('[')[0].rstrip('0123456789') + (
                        '-cut' if '[' in cname else '') + (
                        '-prepack' if idx in prepack else '')
                    if isinstance(s, Exc):
                        bad('same', '%s:%s:open:%s' % (kind, tag, s.name),
                            dict(image=label, index=cname, got=repr(s)))
                        continue
                    obs = observe(s, oids, tids)
                    used = getattr(s, '_used_index', None)
                    s.close()
                    res.clause('C09.same')
                    res.outcome('index-%s' % ('used' if used else 'ignored'))
                    if obs != ref_obs:
                        q, a, b = first_diff(ref_obs, obs)
                        bad('same', '%s:%s:%s' % (kind, tag, q[0]),
                            dict(image=label, index=cname, query=q,
                                 full_scan=repr(a)[:300],
                                 with_index=repr(b)[:300]))
                finally:
                    env.rm_dir(dd)
        # leftovers (with the current index, and with none)
        junk = {'.tmp': JUNK, '.lock': b'99999\n', '.pack': JUNK,
                '.old': JUNK, '.index.index_tmp': JUNK}
        for idx in ([cur_index, None] if cur_index is not None else [None]):
            n += 1
            dd, s = open_image(data, idx, junk)
            try:
                if isinstance(s, Exc):
                    bad('same', '%s:leftovers:open:%s' % (kind, s.name),
                        dict(image=label, got=repr(s)))
                    continue
                obs = observe(s, oids, tids)
                s.close()
                res.clause('C09.leftovers')
                if obs != ref_obs:
                    q, a, b = first_diff(ref_obs, obs)
                    bad('same', '%s:leftovers:%s' % (kind, q[0]),
                        dict(image=label, query=q, full_scan=repr(a)[:300],
                             got=repr(b)[:300]))
            finally:
                env.rm_dir(dd)
        # read-only opens
        for cname, idx in [('none', None)] + cands[:1 + len(versions)]:
            if '[' in cname:
                continue
            n += 1
            dd, s = open_image(data, idx, None, read_only=True)
            try:
                tag = cname.rstrip('0123456789') + (
                    '-prepack' if idx in prepack else '')
                if isinstance(s, Exc):
                    bad('ro.open', '%s:%s:%s' % (kind, tag, s.name),
                        dict(image=label, index=cname, got=repr(s)))
                    continue
                before = listing(dd)
                # the open itself already happened: compare with what we
                # wrote
                want = {'Data.fs': data}
                if idx is not None:
                    want['Data.fs.index'] = idx
                obs = observe(s, oids, tids)
                refuse = []
                t = world.TMD()
                from ZODB.serialize import referencesf
                for name, f in (
                        ('tpc_begin', lambda: s.tpc_begin(t)),
                        ('store', lambda: s.store(p64(1), Z64, b'x', '', t)),
                        ('new_oid', s.new_oid),
                        ('pack', lambda: s.pack(env.CLOCK.now, referencesf)),
                        ('undo', lambda: s.undo(b'AAAAAAAAAAA=', t)),
                        ('deleteObject', lambda: s.deleteObject(
                            p64(1), Z64, t)),
                        ('restore', lambda: s.restore(p64(1), p64(9), b'x',
                                                      '', None, t))):
                    r = call(f)
                    res.clause('C09.ro.refuse')
                    if not (isinstance(r, Exc) and r.name == 'ReadOnlyError'):
                        refuse.append((name, repr(r)[:80]))
                        # (do not go on inside a transaction that should
                        # not exist: a later request would wait for it)
                        call(s.tpc_abort, t)
                        break
                s.close()
                after = listing(dd)
                res.clause('C09.ro.files')
                if refuse:
                    bad('ro.refuse', '%s:%s' % (kind, refuse[0][0]),
                        dict(image=label, index=cname, accepted=refuse))
                if after != want or before != want:
                    names = sorted(set(after) ^ set(want)) or [
                        k for k in want if after.get(k) != want[k]]
                    bad('ro.files', '%s:%s:%s' % (kind, tag, ','.join(
                        x.replace('Data.fs', 'D') for x in names)),
                        dict(image=label, index=cname,
                             files_after=sorted(after)))
                res.clause('C09.ro.state')
                if obs != ref_obs:
                    q, a, b = first_diff(ref_obs, obs)
                    bad('ro.state', '%s:%s:%s' % (kind, tag, q[0]),
                        dict(image=label, index=cname, query=q,
                             full_scan=repr(a)[:300], read_only=repr(b)[:300]))
                if cname == 'none':
                    # ... also when it is told about a blob directory that
                    # does not exist (yet)
                    res.clause('C09.ro.files')
                    s2 = call(FS(), os.path.join(dd, 'Data.fs'),
                              read_only=True,
                              blob_dir=os.path.join(dd, 'blobs'))
                    if isinstance(s2, Exc):
                        bad('ro.open', '%s:blob-dir:%s' % (kind, s2.name),
                            dict(image=label, got=repr(s2)))
                    else:
                        call(s2.load, p64(1))
                        s2.close()
                    made = sorted(set(os.listdir(dd)) - set(want))
                    if made:
                        bad('ro.files', '%s:blob-dir:created' % kind,
                            dict(image=label, created=made))
                        import shutil
                        for x in made:
                            shutil.rmtree(os.path.join(dd, x),
                                          ignore_errors=True)
                    # ... the same through the BlobStorage wrapper
                    res.clause('C09.ro.files')
                    s3 = call(FS(), os.path.join(dd, 'Data.fs'),
                              read_only=True)
                    if not isinstance(s3, Exc):
                        s4 = call(env.mod('ZODB.blob').BlobStorage,
                                  os.path.join(dd, 'blobs'), s3)
                        if isinstance(s4, Exc):
                            bad('ro.open', '%s:blob-wrapper:%s' % (
                                kind, s4.name), dict(image=label,
                                                     got=repr(s4)))
                            s3.close()
                        else:
                            call(s4.load, p64(1))
                            s4.close()
                    made = sorted(set(os.listdir(dd)) - set(want))
                    if made:
                        bad('ro.files', '%s:blob-wrapper:created' % kind,
                            dict(image=label, created=made))
                        import shutil
                        for x in made:
                            shutil.rmtree(os.path.join(dd, x),
                                          ignore_errors=True)
            finally:
                env.rm_dir(dd)
    # torn tail: the last transaction cut at several places, or still
    # carrying its checkpoint flag - the states a read-only open meets while a
    # writer is in the middle of a (multi-write) vote.  Start/stop iteration
    # included (iter_level=1).
    from mc import fsparse
    data = final[0]
    try:
        ptx = fsparse.parse(data, strict=False)
    except fsparse.FormatError:
        ptx = []
    if ptx:
        lt = ptx[-1]
        hl = 23 + len(lt.user) + len(lt.desc) + len(lt.ext)
        torn = []
        for k in sorted({1, 10, 23, hl, hl + 5, lt.tlen - 1, lt.tlen + 3}):
            if 0 < k < lt.tlen + 8:
                torn.append(('cut+%s' % (
                    'header' if k <= hl else 'records' if k < lt.tlen
                    else 'length'), data[:lt.pos + k]))
        torn.append(('checkpoint-flag',
                     data[:lt.pos + 16] + b'c' + data[lt.pos + 17:]))
        for label, tdata in torn:
            dref, ref = open_image(tdata, None)
            if isinstance(ref, Exc):
                bad('ro.state', 'torn:%s:reference-open:%s' % (
                    label, ref.name), dict(got=repr(ref)))
                env.rm_dir(dref)
                continue
            ref_obs = battery.observe(ref, oids, tids, 'F', iter_level=1)
            ref.close()
            env.rm_dir(dref)
            for idx in (None, final[1]):
                n += 1
                dd, s = open_image(tdata, idx, None, read_only=True)
                try:
                    tag = 'torn:%s:%s' % (label, 'index' if idx else 'noindex')
                    if isinstance(s, Exc):
                        bad('ro.open', '%s:%s' % (tag, s.name),
                            dict(got=repr(s)))
                        continue
                    obs = battery.observe(s, oids, tids, 'F', iter_level=1)
                    s.close()
                    res.clause('C09.ro.torn')
                    if obs != ref_obs:
                        q, a, b = first_diff(ref_obs, obs)
                        bad('ro.state', '%s:%s:%s' % (
                            tag, q[0], b.name if isinstance(b, Exc)
                            else 'differs'),
                            dict(query=q, full_scan=repr(a)[:300],
                                 read_only=repr(b)[:300]))
                    want = {'Data.fs': tdata}
                    if idx is not None:
                        want['Data.fs.index'] = idx
                    if listing(dd) != want:
                        bad('ro.files', '%s:modified' % tag,
                            dict(files=sorted(listing(dd))))
                finally:
                    env.rm_dir(dd)
    return n, len(all_versions) >= 2, viol


def run(rep, tier, seed, workers):
    depth = 4 if tier == 'quick' else 5
    cfg = dict(prop='C09', kind='F')
    rep.rule = (
        'for every history over the alphabet (incl. pack without gc and '
        'reopen) on a real FileStorage: every data-file image of the last '
        'step (final state and every op boundary) x {no index, current '
        'index, every index version ever written, every byte-prefix '
        'truncation of every version (final image), leftover side files} is '
        'opened and its battery compared with the index-less open; every '
        'image is also opened read-only with and without each index: files '
        'unchanged, every write refused, same battery; evaluations = opens; '
        'non-trivial = history that produced at least two index versions')
    fps = seqx.explore(rep, MOD, cfg, depth, workers, seed, split=2)
    rep.cov['states'] = len(fps)
    rep.bounds['depth'] = depth
    rep.assumptions = [
        'bit damage inside an index file is outside the property; only '
        'missing, cut-short and stale indexes are enumerated',
        'a read-only open while a writer is between vote and finish sees '
        'the same bytes as the crash image at that op boundary, which is '
        'what is opened here']


def replay(w):
    viol = seqx.replay_history(MOD, w['witness'])
    for v in viol:
        print(v)
    sigs = {'C09.%s:%s' % (c, s) for c, s, d in viol}
    return w['signature'] not in sigs
