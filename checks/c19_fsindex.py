"""C19: the oid index behaves as an ordered map and survives save/load.

Explicit-state exploration of the real fsIndex: every reachable content over a
12-key alphabet (4 six-byte prefixes, including the smallest and the
largest possible one, x 3 two-byte suffixes) with values from a
small domain; in every state every query of the ordered-map API is compared
with a sorted dict, every transition (insert / update / delete / clear /
update(mapping)) is executed on the real object and compared with the model,
and the state is rebuilt along a second path (insert-all-then-delete) as a
differential check on history dependence.
"""
import bisect
import itertools
import os
import struct

from mc import env, par


def P(n):
    return struct.pack('>Q', n)[2:]


def S(n):
    return struct.pack('>H', n)


MAXP = (1 << 48) - 1
PRESENT = [P(0), P(1), P(0x100), P(MAXP)]
ABSENT = [P(2), P(0xff), P(MAXP - 1)]
KSUF = [S(0), S(1), S(0xffff)]
QSUF = [S(0), S(1), S(2), S(0xfffe), S(0xffff)]
KEYS = sorted(p + s for p in PRESENT for s in KSUF)
QKEYS = sorted(p + s for p in PRESENT + ABSENT for s in QSUF)
VALS_QUICK = [0, (1 << 48) - 1]
VALS_THOROUGH = [0, (1 << 48) - 1]
POSITIONS = [0, 4, (1 << 48) - 1, 1 << 50]


def fsIndex():
    return env.mod('ZODB.fsIndex').fsIndex


def build_direct(state):
    ix = fsIndex()()
    for k in sorted(state):
        ix[k] = state[k]
    return ix


def build_via_delete(state, fill):
    ix = fsIndex()()
    for k in KEYS:
        ix[k] = state.get(k, fill)
    for k in reversed(KEYS):
        if k not in state:
            del ix[k]
    return ix


def call(f, *a):
    try:
        return ('ok', f(*a))
    except Exception as e:            # noqa: B902
        return ('exc', type(e).__name__)


def m_minkey(skeys, k):
    if not skeys:
        return ('exc', 'ValueError')
    if k is None:
        return ('ok', skeys[0])
    i = bisect.bisect_left(skeys, k)
    if i == len(skeys):
        return ('exc', 'ValueError')
    return ('ok', skeys[i])


def m_maxkey(skeys, k):
    if not skeys:
        return ('exc', 'ValueError')
    if k is None:
        return ('ok', skeys[-1])
    i = bisect.bisect_right(skeys, k)
    if i == 0:
        return ('exc', 'ValueError')
    return ('ok', skeys[i - 1])


def prefix_kind(state, k):
    if k is None:
        return 'nokey'
    if any(x[:6] == k[:6] for x in state):
        return 'prefix-present'
    return 'prefix-absent'


def queries(ix, state, out, how):
    """Compare every query on ix with the sorted-dict model `state`."""
    skeys = sorted(state)
    n = 0

    def bad(clause, q, kind, exp, got):
        sig = '%s:%s:%s:%s' % (clause, q, kind,
                               got[1] if got[0] == 'exc' else 'wrong-value')
        out['violations'].append(
            (clause, sig,
             dict(state={k.hex(): v for k, v in state.items()}, how=how,
                  query=q, key=None if kind == 'nokey' else kind),
             dict(expected=repr(exp), got=repr(got)), 1))

    # whole-map observations
    for name, f, exp in (
            ('len', lambda: len(ix), len(state)),
            ('keys', lambda: list(ix.keys()), skeys),
            ('iter', lambda: list(ix), skeys),
            ('items', lambda: list(ix.items()),
             [(k, state[k]) for k in skeys]),
            ('values', lambda: list(ix.values()),
             [state[k] for k in skeys]),
            ('iteritems', lambda: list(ix.iteritems()),
             [(k, state[k]) for k in skeys])):
        got = call(f)
        n += 1
        if got != ('ok', exp):
            bad('C19.iter', name, 'nokey', exp, got)
    got = call(ix.minKey)
    n += 1
    if got != m_minkey(skeys, None):
        bad('C19.minKey', 'minKey()', 'nokey', m_minkey(skeys, None), got)
    got = call(ix.maxKey)
    n += 1
    if got != m_maxkey(skeys, None):
        bad('C19.maxKey', 'maxKey()', 'nokey', m_maxkey(skeys, None), got)
    for k in QKEYS:
        kind = prefix_kind(state, k)
        exp_get = state.get(k)
        for name, f, exp in (
                ('get', lambda: ix.get(k), ('ok', exp_get)),
                ('get-default', lambda: ix.get(k, -1),
                 ('ok', state.get(k, -1))),
                ('getitem', lambda: ix[k],
                 ('ok', state[k]) if k in state else ('exc', 'KeyError')),
                ('contains', lambda: k in ix, ('ok', k in state)),
                ('has_key', lambda: bool(ix.has_key(k)), ('ok', k in state)),
        ):
            got = call(f)
            n += 1
            if got != exp:
                bad('C19.lookup', name, kind, exp, got)
        exp = m_minkey(skeys, k)
        got = call(ix.minKey, k)
        n += 1
        if got != exp:
            bad('C19.minKey', 'minKey(k)', kind, (k.hex(), exp), got)
        exp = m_maxkey(skeys, k)
        got = call(ix.maxKey, k)
        n += 1
        if got != exp:
            bad('C19.maxKey', 'maxKey(k)', kind, (k.hex(), exp), got)
    return n


def saveload(state, pos, d, out):
    ix = build_direct(state)
    fn = os.path.join(d, 'ix')
    got = call(ix.save, pos, fn)
    if got[0] == 'exc':
        # positions >= 2**48 are outside the property; only data counts
        out['violations'].append((
            'C19.save', 'C19.save:exc:' + got[1],
            dict(state={k.hex(): v for k, v in state.items()}, pos=pos),
            dict(got=repr(got)), 1))
        return 1
    got = call(fsIndex().load, fn)
    ok = (got[0] == 'ok' and isinstance(got[1], dict)
          and got[1].get('pos') == pos
          and list(got[1]['index'].items()) == sorted(state.items()))
    if ok:
        # the loaded index must also answer ordered queries
        ix2 = got[1]['index']
        skeys = sorted(state)
        ok = all(call(ix2.minKey, k) == m_minkey(skeys, k) and
                 call(ix2.maxKey, k) == m_maxkey(skeys, k)
                 for k in KEYS)
        if ok:
            # and stay a working map
            ix2[KEYS[0]] = 8
            ok = ix2[KEYS[0]] == 8
    if not ok:
        out['violations'].append((
            'C19.saveload', 'C19.saveload:mismatch',
            dict(state={k.hex(): v for k, v in state.items()}, pos=pos),
            dict(got=repr(got)[:300]), 1))
    os.unlink(fn)
    return 1


def transitions(state, vals, out):
    """Apply every transition to a freshly built real index; compare with the
    model successor.  Returns list of successor states (as dicts)."""
    succ = []
    n = 0

    def chk(name, ix, nxt):
        got = call(lambda: list(ix.items()))
        if got != ('ok', sorted(nxt.items())) or len(ix) != len(nxt):
            out['violations'].append((
                'C19.step', 'C19.step:' + name.split(' ')[0],
                dict(state={k.hex(): v for k, v in state.items()}, op=name),
                dict(expected=repr(sorted(nxt.items())), got=repr(got)), 1))

    for k in KEYS:
        for v in vals:
            if state.get(k) == v:
                continue
            ix = build_direct(state)
            ix[k] = v
            nxt = dict(state)
            nxt[k] = v
            chk('set %s' % k.hex(), ix, nxt)
            succ.append(nxt)
            n += 1
        ix = build_direct(state)
        r = call(ix.__delitem__, k)
        nxt = dict(state)
        if k in state:
            del nxt[k]
            exp = ('ok', None)
        else:
            exp = ('exc', 'KeyError')
        if r != exp:
            out['violations'].append((
                'C19.step', 'C19.step:del-result',
                dict(state={x.hex(): v for x, v in state.items()},
                     op='del ' + k.hex()),
                dict(expected=exp, got=r), 1))
        chk('del %s' % k.hex(), ix, nxt)
        if k in state:
            succ.append(nxt)
        n += 1
    ix = build_direct(state)
    ix.clear()
    chk('clear', ix, {})
    succ.append({})
    n += 1
    # two steps: a key is deleted (its prefix may lose its last key) and a
    # key with the same prefix is inserted; clear and insert
    for k in state:
        for k2 in KEYS:
            if k2[:6] != k[:6]:
                continue
            ix = build_direct(state)
            del ix[k]
            ix[k2] = vals[0]
            nxt = dict(state)
            del nxt[k]
            nxt[k2] = vals[0]
            chk('del+set %s %s' % (k.hex(), k2.hex()), ix, nxt)
            if call(ix.get, k2) != ('ok', vals[0]) or (k2 in ix) is not True:
                out['violations'].append((
                    'C19.step', 'C19.step:del+set-lookup',
                    dict(state={x.hex(): v for x, v in state.items()},
                         op='del %s set %s' % (k.hex(), k2.hex())),
                    dict(got=repr(call(ix.get, k2))), 1))
            n += 1
    for k2 in KEYS[:1] + KEYS[-1:]:
        ix = build_direct(state)
        ix.clear()
        ix[k2] = vals[0]
        chk('clear+set %s' % k2.hex(), ix, {k2: vals[0]})
        n += 1
    # update(mapping) with two keys of different prefixes
    ix = build_direct(state)
    upd = {KEYS[0]: vals[-1], KEYS[-1]: vals[0]}
    ix.update(upd)
    nxt = dict(state)
    nxt.update(upd)
    chk('update', ix, nxt)
    n += 1
    # update(another fsIndex), the same two keys and one key alone: every
    # other key under a shared prefix must stay
    for ks in (KEYS[:1] + KEYS[-1:], KEYS[1:2]):
        ix = build_direct(state)
        upd = {k: vals[(i + 1) % len(vals)] for i, k in enumerate(ks)}
        other = fsIndex()()
        for k, v in upd.items():
            other[k] = v
        ix.update(other)
        nxt = dict(state)
        nxt.update(upd)
        chk('update-fsindex-%d' % len(ks), ix, nxt)
        n += 1
    return succ, n


def canon(state):
    return tuple(sorted(state.items()))


def explore_chunk(states, vals, fill, with_trans):
    """Worker: check a chunk of states given as item tuples."""
    env.install()
    out = dict(cov=dict(states=0, transitions=0, evaluations=0,
                        traces_validated_against_impl=0,
                        distinct_nontrivial=0),
               violations=[], outcomes={}, samples=[])
    d = env.new_dir('c19')
    for i, items in enumerate(states):
        state = dict(items)
        n = queries(build_direct(state), state, out, 'direct')
        n += queries(build_via_delete(state, fill), state, out, 'via-delete')
        n += saveload(state, POSITIONS[(len(state) + i) % 3], d, out)
        t = 0
        if with_trans:
            _, t = transitions(state, vals, out)
        out['cov']['states'] += 1
        out['cov']['transitions'] += t
        out['cov']['evaluations'] += n
        out['cov']['traces_validated_against_impl'] += 2
        if len(state) >= 2:
            out['cov']['distinct_nontrivial'] += 1
        if not out['samples'] and len(state) == 4:
            out['samples'].append(dict(
                state={k.hex(): v for k, v in state.items()},
                queries=n, transitions=t))
        if len(out['violations']) > 200:
            # keep the merge cheap; signatures are deduplicated anyway
            seen, keep = set(), []
            for v in out['violations']:
                if v[1] not in seen:
                    seen.add(v[1])
                    keep.append(v)
            out['violations'] = keep
    env.rm_dir(d)
    return out


def all_states(vals):
    for choice in itertools.product([None] + list(vals), repeat=len(KEYS)):
        yield tuple((k, v) for k, v in zip(KEYS, choice) if v is not None)


def reach_bfs(vals):
    """Reachability through the real transition function from the empty
    index: confirms that the enumerated space is exactly the reachable one."""
    out = dict(violations=[])
    seen = {canon({})}
    frontier = [{}]
    while frontier:
        nxt_frontier = []
        for st in frontier:
            succ, _ = transitions(st, vals, out)
            for s in succ:
                c = canon(s)
                if c not in seen:
                    seen.add(c)
                    nxt_frontier.append(s)
        frontier = nxt_frontier
    return seen, out


def run(rep, tier, seed, workers):
    if tier == 'quick':
        vals = [4]
        allvals = VALS_QUICK
    else:
        vals = VALS_THOROUGH + [4]
        allvals = VALS_THOROUGH
    # quick: all 512 key subsets, one value per key (alternating so that both
    # values occur), all transitions with both values.
    if tier == 'quick':
        states = []
        for st in all_states(vals):
            states.append(tuple(
                (k, allvals[(KEYS.index(k) + len(st)) % 2]) for k, _ in st))
    else:
        states = list(all_states(allvals))
    rep.rule = (
        'states = contents of the real fsIndex over 12 keys (4 prefixes x 3 '
        'suffixes), values in %r; each state is built on the real object '
        'along two paths (sorted inserts; insert-all-then-delete) and all '
        '%d query keys (present and absent prefixes, suffixes between and '
        'beyond the stored ones) are asked for get/[]/in/has_key/minKey/'
        'maxKey plus len/keys/items/values/iter and a save/load round trip; '
        'transitions = set/update/delete/clear/update(dict)/update(fsIndex) executed on '
        'the real object and compared with a sorted dict; non-trivial = '
        'state with at least 2 keys' % (allvals, len(QKEYS)))
    rep.bounds = dict(keys=len(KEYS), values=allvals, query_keys=len(QKEYS),
                      states_enumerated=len(states))
    rep.assumptions = [
        'positions are < 2**48 as the property states',
        'ordered-map contract for smallest-key-not-below / largest-key-not-'
        'above with no answer is ValueError, as for BTrees']
    n = max(1, len(states) // (workers * 4))
    chunks = [states[i:i + n] for i in range(0, len(states), n)]
    fill = allvals[-1]
    tasks = [('checks.c19_fsindex', 'explore_chunk',
              (c, allvals, fill, True)) for c in chunks]
    par.run_tasks(tasks, workers, rep, seed)
    if tier == 'quick':
        # reachability closure over the one-value alphabet (all key subsets)
        seen, out = reach_bfs(vals)
        rep.bounds['reachable_states_bfs'] = len(seen)
        rep.merge_counts(dict(violations=out['violations']))
        if len(seen) != 2 ** len(KEYS):
            rep.violation('C19.reach', 'C19.reach:count',
                          dict(), dict(reachable=len(seen)))
    rep.outcome('states', len(states))


def replay(w):
    env.install()
    wit = w['witness']
    state = {bytes.fromhex(k): v for k, v in wit.get('state', {}).items()}
    out = dict(violations=[])
    queries(build_direct(state), state, out, 'direct')
    queries(build_via_delete(state, VALS_QUICK[-1]), state, out, 'via-delete')
    d = env.new_dir('c19r')
    for pos in POSITIONS[:3]:
        saveload(state, pos, d, out)
    transitions(state, VALS_QUICK, out)
    env.rm_dir(d)
    sigs = {v[1] for v in out['violations']}
    for v in out['violations'][:5]:
        print(v[1], v[3])
    return w['signature'] not in sigs
